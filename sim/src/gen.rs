//! Seeded workload generator for the quire engine: swarm configuration per run, operand
//! regimes, event mix, fault/event placement. Every choice comes from the run's `Prng`.

use crate::events::{Acc, Case, Ev};
use crate::posit_ref::{posit_units, pow2_posit, round_exact, QT};
use crate::wide::Wide;
use crate::prng::Prng;
use crate::quire::{Failure, Mode, Runner};
use crate::stats::{Pr, Stats};
use crate::sut::{Img, Sp, Sut};

/// set once by main before any run: the thorough tier also draws long histories
pub static THOROUGH: std::sync::atomic::AtomicBool = std::sync::atomic::AtomicBool::new(false);

pub const STREAM_QUIRE_C04: u64 = 4;
pub const STREAM_QUIRE_C12: u64 = 12;

#[derive(Clone, Debug)]
pub struct Swarm {
    pub qt: QT,
    pub len: usize,
    pub init_via: u8,
    /// weights of operand regimes: uniform, scale-uniform, extremes, near-one, power-of-two, special, repeat
    pub w_regime: [u32; 7],
    /// weights of event kinds: acc, cancel-prev, clear, poison, restart, inject, order, load, neg, split2, split3, matdot, boundary
    pub w_event: [u32; 13],
    /// weights of spellings, index = Sp::ALL
    pub w_spell: [u32; 11],
    /// odds (out of 8) that an accumulate is a subtraction
    pub sub_odds: u32,
    /// if set, operand scales are squeezed toward this regime polarity to build up deep states
    pub small_bias: u32,
    pub mode: Mode,
    /// stratified first event (see pick_qt)
    pub first: Option<Ev>,
}

/// Quire type and stratum index of a run. The type is a function of the run index (2:3:5), so
/// that the runs of each small type can be numbered: the first 65536 Q8E0 runs start with the
/// product of the sidx-th operand PAIR (all 2^16 pairs of P8E0 patterns), the first 65536 Q16E1
/// runs start by adding / loading the sidx-th P16E1 pattern. Every quick batch therefore puts
/// every P8E0 product and every P16E1 posit through the quire once, whatever the seed; the rest
/// of each history is seeded as usual.
fn pick_qt(run: u64) -> (QT, u64) {
    let (d, m) = (run / 10, run % 10);
    match m {
        0 | 1 => (QT::Q8, d * 2 + m),
        2 | 3 | 4 => (QT::Q16, d * 3 + (m - 2)),
        _ => (QT::Q32, d * 5 + (m - 5)),
    }
}

pub fn draw_swarm(rng: &mut Prng, mode: Mode, run: u64, seed_offset: u64, st: &mut Stats) -> Swarm {
    let (qt, sidx) = pick_qt(run);
    st.hit(match qt {
        QT::Q8 => Pr::runs_q8,
        QT::Q16 => Pr::runs_q16,
        QT::Q32 => Pr::runs_q32,
    });
    // many short runs: median about 8, tail to 96
    let mut len = rng.geometric(1, 96, 11, 12) as usize;
    if THOROUGH.load(std::sync::atomic::Ordering::Relaxed) && rng.chance(1, 8) {
        // thorough tier: one run in eight is a long history (median ~70, up to 400 events)
        len = rng.geometric(1, 400, 99, 100) as usize;
    }
    let init_via = rng.below(4) as u8;
    let mut w_regime = [0u32; 7];
    for w in w_regime.iter_mut() {
        *w = if rng.chance(2, 3) { 1 + rng.below(8) as u32 } else { 0 };
    }
    if w_regime.iter().take(6).all(|&w| w == 0) {
        w_regime[rng.below(6) as usize] = 4;
    }
    // event kinds: each non-acc kind is enabled in a random subset of runs
    let mut w_event = [0u32; 13];
    w_event[0] = 40 + rng.below(40) as u32; // acc
    let on = |rng: &mut Prng, num: u64, den: u64, lo: u32, hi: u32| -> u32 {
        if rng.chance(num, den) {
            lo + rng.below((hi - lo + 1) as u64) as u32
        } else {
            0
        }
    };
    w_event[1] = on(rng, 1, 2, 2, 12); // cancel previous term
    w_event[2] = on(rng, 1, 2, 1, 4); // clear
    w_event[3] = on(rng, 1, 2, 1, 3); // poison
    w_event[4] = on(rng, 1, 2, 2, 8); // restart
    w_event[5] = on(rng, 1, 3, 2, 8); // inject
    w_event[6] = on(rng, 1, 2, 3, 10); // order
    w_event[11] = on(rng, 1, 6, 1, 4); // matrix product client
    w_event[12] = on(rng, 1, 2, 2, 10); // rounding-boundary seeking accumulate
    if mode == Mode::C12 {
        let any = rng.chance(7, 8);
        if any {
            w_event[7] = on(rng, 2, 3, 2, 8); // load
            w_event[8] = on(rng, 3, 4, 4, 14); // neg
            w_event[9] = on(rng, 2, 3, 2, 8); // split2
            w_event[10] = on(rng, 2, 3, 2, 8); // split3
            if w_event[7..11].iter().all(|&w| w == 0) {
                w_event[8] = 8;
            }
            st.hit(Pr::cfg_c12);
        }
    }
    if w_event[2] > 0 {
        st.hit(Pr::cfg_clear);
    }
    if w_event[3] > 0 {
        st.hit(Pr::cfg_poison);
    }
    if w_event[4] > 0 {
        st.hit(Pr::cfg_restart);
    }
    if w_event[5] > 0 {
        st.hit(Pr::cfg_inject);
    }
    if w_event[6] > 0 {
        st.hit(Pr::cfg_order);
    }
    let mut w_spell = [0u32; 11];
    for w in w_spell.iter_mut() {
        *w = if rng.chance(3, 5) { 1 + rng.below(6) as u32 } else { 0 };
    }
    if w_spell.iter().all(|&w| w == 0) {
        w_spell[0] = 1;
    }
    let first = if sidx < 65536 {
        match qt {
            QT::Q8 => {
                st.hit(Pr::strat_q8);
                let sp = [Sp::Prod, Sp::ProdM, Sp::ProdT][rng.below(3) as usize];
                Some(Ev::Acc(Acc { sp, sub: rng.chance(1, 2), ops: vec![(sidx >> 8) as u32 & 0xFF, sidx as u32 & 0xFF] }))
            }
            QT::Q16 => {
                st.hit(Pr::strat_q16);
                let p = sidx as u32 & 0xFFFF;
                if mode == Mode::C12 {
                    // the round-trip clause of C12, for every P16E1 pattern
                    Some(Ev::Load(p, rng.below(3) as u8))
                } else if rng.chance(1, 2) {
                    Some(Ev::Acc(Acc { sp: Sp::One, sub: rng.chance(1, 2), ops: vec![p] }))
                } else {
                    let ops = if rng.chance(1, 2) { vec![p, qt.one()] } else { vec![qt.one(), p] };
                    Some(Ev::Acc(Acc { sp: Sp::Prod, sub: rng.chance(1, 2), ops }))
                }
            }
            QT::Q32 => None, // (Q32E2 is stratified by operand structure class below, for every sidx)
        }
    } else {
        None
    };
    // Q32E2: half of the runs start with a product whose two factors belong to the k-th
    // (sign, regime polarity, regime length, exponent) class pair — 2*2*30*4 = 480 classes per factor,
    // 230 400 class pairs — with seeded fraction bits; k walks through the class pairs with the run
    // index, offset by the seed, so a thorough batch visits every class pair many times.
    let first = if qt == QT::Q32 && sidx % 2 == 0 {
        let k = (sidx / 2).wrapping_add(seed_offset) % 230_400;
        let (ka, kb) = (k / 480, k % 480);
        let mk = |rng: &mut Prng, c: u64| -> u32 {
            let (neg, pol, e, rl) = (c & 1 != 0, c & 2 != 0, ((c >> 2) & 3) as u32, (c >> 4) as u32 + 1); // rl 1..=30
            let fill = match rng.below(8) {
                0 => 0,
                1 => u64::MAX,
                2 => 1u64 << rng.below(32),
                _ => rng.next(),
            };
            let mut body: u32 = 0;
            let mut used = 0u32;
            for i in 0..31u32 {
                let bit = if i < rl {
                    pol
                } else if i == rl {
                    !pol
                } else if i - rl - 1 < 2 {
                    (e >> (1 - (i - rl - 1))) & 1 != 0
                } else {
                    used += 1;
                    (fill >> (used % 64)) & 1 != 0
                };
                body = (body << 1) | bit as u32;
            }
            if body == 0 {
                body = 1;
            }
            if neg { body.wrapping_neg() } else { body }
        };
        let (a, b) = (mk(rng, ka), mk(rng, kb));
        st.hit(Pr::strat_q32);
        let sp = [Sp::Prod, Sp::ProdM, Sp::ProdT][rng.below(3) as usize];
        Some(Ev::Acc(Acc { sp, sub: rng.chance(1, 2), ops: vec![a, b] }))
    } else {
        first
    };
    Swarm {
        first,
        qt,
        len,
        init_via,
        w_regime,
        w_event,
        w_spell,
        sub_odds: rng.below(7) as u32,
        small_bias: rng.below(4) as u32,
        mode,
    }
}

/// One operand of posit type `qt` from regime `reg`.
pub fn operand(rng: &mut Prng, qt: QT, reg: usize, prev: &[u32], small_bias: u32) -> u32 {
    let n = qt.n();
    let mask = qt.mask();
    let maxpos = qt.maxpos();
    let sign = |rng: &mut Prng, p: u32| if rng.chance(1, 2) { qt.neg_bits(p) } else { p };
    let fix = |p: u32| {
        // never NaR from an ordinary regime (poison is its own event)
        if p & mask == qt.nar() {
            qt.one()
        } else {
            p & mask
        }
    };
    match reg {
        0 => fix(rng.next() as u32),
        1 | 4 => {
            // scale-uniform: regime run length uniform, polarity random, rest random (or zero: power of two)
            let rl = rng.range(1, (n - 1) as u64) as u32;
            let pol = match small_bias {
                1 => rng.chance(1, 5),
                2 => rng.chance(4, 5),
                _ => rng.chance(1, 2),
            };
            let body_bits = n - 1;
            let mut body: u32 = 0;
            // run of `rl` bits equal to pol, then the terminator, then the rest
            for i in 0..body_bits {
                let bit = if i < rl {
                    pol
                } else if i == rl {
                    !pol
                } else if reg == 4 {
                    // power of two: exponent bits random, fraction zero
                    let es_left = i - rl - 1 < qt.es();
                    es_left && rng.chance(1, 2)
                } else {
                    rng.chance(1, 2)
                };
                body = (body << 1) | bit as u32;
            }
            if body == 0 {
                body = 1;
            }
            fix(sign(rng, body))
        }
        2 => {
            // extremes: a few patterns away from minpos / maxpos
            let d = rng.geometric(0, 40, 3, 4) as u32;
            let p = if rng.chance(1, 2) { 1 + d } else { maxpos - d.min(maxpos - 1) };
            fix(sign(rng, p))
        }
        3 => {
            // near one (and near other powers of two with short regimes)
            let d = rng.geometric(0, 200, 7, 8) as u32;
            let base = qt.one();
            let p = if rng.chance(1, 2) { base + d } else { base - d.min(base - 1) };
            fix(sign(rng, p))
        }
        5 => {
            let c = [0u32, 1, maxpos, qt.one(), qt.one() >> 1, qt.one() + (qt.one() >> 1)];
            let v = c[rng.below(c.len() as u64) as usize];
            fix(sign(rng, v))
        }
        _ => {
            if prev.is_empty() {
                fix(rng.next() as u32)
            } else {
                let p = prev[rng.below(prev.len() as u64) as usize];
                if p == qt.nar() {
                    qt.one()
                } else if rng.chance(1, 4) {
                    qt.neg_bits(p)
                } else {
                    p
                }
            }
        }
    }
}

/// number of fraction bits a positive posit pattern has room for
fn fraction_bits(qt: QT, p: u32) -> u32 {
    let n = qt.n();
    let body = p & (qt.nar() - 1);
    let r0 = (body >> (n - 2)) & 1;
    let mut rl = 0u32;
    while rl < n - 1 && ((body >> (n - 2 - rl)) & 1) == r0 {
        rl += 1;
    }
    (n - 1).saturating_sub(rl + 1).saturating_sub(qt.es())
}

/// An image at or next to a rounding boundary: the midpoint of two adjacent posits (an exact
/// tie), or an exact posit value, plus/minus nothing, one unit, or a single far-away bit.
fn boundary_image(rng: &mut Prng, qt: QT) -> Option<Img> {
    let reg = [0usize, 1, 1, 2, 2, 3, 4][rng.below(7) as usize];
    let mut p = operand(rng, qt, reg, &[], 0);
    if qt != QT::Q8 && rng.chance(1, 4) {
        // limb-aligned: a posit whose leading bit sits on the top bit of a 64-bit limb of the quire
        // (scale = 64 j + 63 - F), with random fraction bits below it
        let limbs = (qt.w() / 64) as u64;
        for _ in 0..4 {
            let j = rng.below(limbs) as i32;
            let sc = 64 * j + 63 - qt.f() as i32;
            if let Some(b) = pow2_posit(qt, sc) {
                let fb = fraction_bits(qt, b);
                let mask = if fb == 0 { 0 } else { (1u32 << fb) - 1 };
                p = b | (rng.next() as u32 & mask);
                break;
            }
        }
    }
    let mut m = if p >> (qt.n() - 1) != 0 { qt.neg_bits(p) } else { p };
    if m == 0 || m >= qt.maxpos() {
        m = qt.maxpos() - 1;
    }
    let u0 = posit_units(qt, m)?;
    let u1 = posit_units(qt, m + 1)?;
    let gap = u1.sub(&u0);
    let g = gap.top_bit()?;
    let base = if rng.chance(3, 4) {
        if g == 0 {
            return None;
        }
        u0.add(&Wide::one_shl(g - 1)) // the midpoint
    } else {
        u0
    };
    let delta = match rng.below(6) {
        0 | 1 => Wide::ZERO,
        2 => Wide::from_u128(1),
        3 | 4 => {
            // a single far-away bit: anywhere below the rounding position, or at a position that
            // is structurally special for multi-limb code (64 below the leading bit, limb edges)
            let h = base.top_bit().unwrap_or(0);
            let pos = match rng.below(4) {
                0 | 1 => rng.below(g.max(1) as u64) as u32,
                // 62..66 places below the leading bit; half of the time exactly 63 or 64 (the last bit of
                // the 64-bit window the conversions look at, and the first bit below it)
                2 => h.saturating_sub(if rng.chance(1, 2) { 63 + rng.below(2) as u32 } else { 62 + rng.below(5) as u32 }),
                _ => (64 * rng.below(8) as u32 + [0u32, 1, 63][rng.below(3) as usize]).min(g.saturating_sub(1)),
            };
            Wide::one_shl(pos.min(g.saturating_sub(1)))
        }
        _ => Wide::from_u128((rng.next() >> rng.below(64)) as u128),
    };
    let mut v = if rng.chance(1, 2) { base.add(&delta) } else { base.sub(&delta) };
    if rng.chance(1, 2) {
        v = v.neg();
    }
    if !v.abs_lt_pow2(qt.w() - 1) {
        return None;
    }
    Some(v.image(qt.w()))
}

fn structured_image(rng: &mut Prng, qt: QT) -> Img {
    if rng.chance(1, 3) {
        if let Some(img) = boundary_image(rng, qt) {
            if img != qt.nar_image() {
                return img;
            }
        }
    }
    let mut img = [0u64; 8];
    let limb = |rng: &mut Prng| -> u64 {
        match rng.below(5) {
            0 => u64::MAX,
            1 => 1u64 << rng.below(64),
            2 => rng.next() >> rng.below(64),
            3 => rng.next() << rng.below(64),
            _ => rng.next(),
        }
    };
    match qt {
        QT::Q8 => {
            let v = match rng.below(5) {
                0 => (rng.next() as u32) >> rng.below(32),
                1 => 0x7FFF_FFFF - (rng.below(64) as u32),
                2 => 0x8000_0001 + (rng.below(64) as u32),
                3 => (-(1i32 << rng.below(31))) as u32,
                _ => rng.next() as u32,
            };
            img[7] = v as u64;
        }
        QT::Q16 => {
            match rng.below(7) {
                0 => img[7] = limb(rng),
                1 => img[6] = limb(rng) >> 1,
                2 => {
                    img[6] = 0x7FFF_FFFF_FFFF_FFFF;
                    img[7] = u64::MAX - rng.below(64);
                }
                3 => {
                    img[6] = 1 << 63;
                    img[7] = 1 + rng.below(64) + if rng.chance(1, 2) { rng.next() } else { 0 };
                }
                4 => {
                    img[6] = u64::MAX;
                    img[7] = limb(rng);
                }
                5 => {
                    img[6] = u64::MAX << rng.below(63);
                    img[7] = 0;
                }
                _ => {
                    img[6] = rng.next();
                    img[7] = rng.next();
                }
            }
        }
        QT::Q32 => match rng.below(9) {
            0 => {
                // a single non-zero limb
                let i = rng.below(8) as usize;
                img[i] = limb(rng);
                if i == 0 {
                    img[0] >>= 1;
                }
            }
            1 => {
                // small negative: all ones above, one random limb, zeros/random below
                let i = 1 + rng.below(7) as usize;
                for l in img.iter_mut().take(i) {
                    *l = u64::MAX;
                }
                img[i] = limb(rng);
                if rng.chance(1, 2) {
                    for l in img.iter_mut().skip(i + 1) {
                        *l = rng.next();
                    }
                }
            }
            2 => {
                // a run of all-ones limbs
                let a = rng.below(8) as usize;
                let b = a + rng.below((8 - a) as u64) as usize;
                for l in img.iter_mut().take(b + 1).skip(a) {
                    *l = u64::MAX;
                }
                if a == 0 {
                    img[0] >>= 1;
                }
                if rng.chance(1, 2) {
                    img[7] |= 1;
                }
            }
            3 => {
                // near +2^(W-1)
                for l in img.iter_mut() {
                    *l = u64::MAX;
                }
                img[0] = 0x7FFF_FFFF_FFFF_FFFF;
                img[7] -= rng.below(1 << 20);
            }
            4 => {
                // top limb is the NaR limb, lower limbs not all zero (a very negative real sum)
                img[0] = 1 << 63;
                let i = 1 + rng.below(7) as usize;
                img[i] = limb(rng) | 1;
                if rng.chance(1, 3) {
                    let j = 1 + rng.below(7) as usize;
                    img[j] |= limb(rng);
                }
            }
            5 => {
                // two limbs far apart
                let i = rng.below(8) as usize;
                let j = rng.below(8) as usize;
                img[i] = limb(rng);
                img[j] = limb(rng);
                img[0] &= 0x7FFF_FFFF_FFFF_FFFF;
            }
            6 => {
                // leading bit somewhere, random below (positive or negated)
                let top = rng.below(8) as usize;
                for (i, l) in img.iter_mut().enumerate() {
                    if i == top {
                        *l = rng.next() >> (1 + rng.below(63));
                    } else if i > top {
                        *l = if rng.chance(1, 3) { 0 } else { rng.next() };
                    }
                }
                if rng.chance(1, 2) {
                    let w = crate::wide::Wide::from_image(&img, 512).neg();
                    img = w.image(512);
                }
            }
            7 => {
                // exactly a power of two (or its negation) — carries ripple the whole way on the next op
                let b = rng.below(511) as u32;
                let w = crate::wide::Wide::one_shl(b);
                let w = if rng.chance(1, 2) { w.neg() } else { w };
                img = w.image(512);
            }
            _ => {
                for l in img.iter_mut() {
                    *l = rng.next();
                }
            }
        },
    }
    if img == qt.nar_image() {
        img[7] |= 1;
    }
    img
}

pub struct Generated {
    pub case: Case,
    pub failure: Option<Failure>,
    pub digest: u64,
    pub nontrivial: bool,
}

pub fn generate_and_run(seed: u64, run: u64, mode: Mode, st: &mut Stats) -> Generated {
    generate_and_run_traced(seed, run, mode, st, None)
}

/// As `generate_and_run`; with a trace sink every event is written (and flushed) *before* it is
/// applied, so that a run which never returns leaves the history that leads to the hang.
pub fn generate_and_run_traced(seed: u64, run: u64, mode: Mode, st: &mut Stats, mut trace: Option<&mut dyn std::io::Write>) -> Generated {
    let stream = match mode {
        Mode::C04 => STREAM_QUIRE_C04,
        Mode::C12 => STREAM_QUIRE_C12,
    };
    let mut rng = Prng::for_run(seed, stream, run);
    let sw = draw_swarm(&mut rng, mode, run, seed % 230_400, st);
    if let Some(t) = trace.as_mut() {
        let _ = writeln!(t, "type {}\ninit_via {}", sw.qt.name(), sw.init_via);
        let _ = t.flush();
    }
    match sw.qt {
        QT::Q8 => gen_t::<softposit::Q8E0>(&mut rng, &sw, st, trace),
        QT::Q16 => gen_t::<softposit::Q16E1>(&mut rng, &sw, st, trace),
        QT::Q32 => gen_t::<softposit::Q32E2>(&mut rng, &sw, st, trace),
    }
}

fn draw_acc(rng: &mut Prng, sw: &Swarm, prev: &mut Vec<u32>, poison: bool) -> Acc {
    let qt = sw.qt;
    let mut sp = Sp::ALL[rng.weighted(&sw.w_spell)];
    let mut sub = rng.below(8) < sw.sub_odds as u64;
    if sub && !sp.has_sub() {
        if rng.chance(1, 2) {
            sub = false;
        } else {
            sp = Sp::T2;
        }
    }
    let mut ops = Vec::with_capacity(sp.arity());
    for _ in 0..sp.arity() {
        let reg = rng.weighted(&sw.w_regime);
        let p = operand(rng, qt, reg, prev, sw.small_bias);
        ops.push(p);
        prev.push(p);
        if prev.len() > 8 {
            prev.remove(0);
        }
    }
    if poison {
        let i = rng.below(ops.len() as u64) as usize;
        ops[i] = qt.nar();
        // sometimes pair the NaR with a zero partner: NaR must still win
        if ops.len() >= 2 && rng.chance(1, 3) {
            let j = (i + 1 + rng.below(ops.len() as u64 - 1) as usize) % ops.len();
            ops[j] = 0;
        }
    }
    Acc { sp, sub, ops }
}

/// Re-express the terms of the last `k` accumulate events in another order and grouping.
fn draw_alt(rng: &mut Prng, qt: QT, seg: &[&Acc]) -> Vec<Acc> {
    // flatten to operand-level terms
    let mut terms: Vec<(bool, u32, Option<u32>)> = Vec::new();
    for a in seg {
        for (x, y) in a.sp.terms(&a.ops) {
            terms.push((a.sub, x, y));
        }
    }
    rng.shuffle(&mut terms);
    let mut out: Vec<Acc> = Vec::new();
    let mut i = 0;
    while i < terms.len() {
        let (sub, x, y) = terms[i];
        match y {
            None => {
                // a single posit: as `q += a`, or as the product a*1 / 1*a
                let acc = match rng.below(4) {
                    0 => Acc { sp: Sp::Prod, sub, ops: vec![x, qt.one()] },
                    1 => Acc { sp: Sp::ProdM, sub, ops: vec![qt.one(), x] },
                    _ => Acc { sp: Sp::One, sub, ops: vec![x] },
                };
                out.push(acc);
                i += 1;
            }
            Some(y) => {
                // try to group following product terms that share the first factor and the sign
                let mut group = vec![y];
                let mut j = i + 1;
                while j < terms.len() && group.len() < 4 {
                    match terms[j] {
                        (s2, x2, Some(y2)) if s2 == sub && x2 == x && rng.chance(3, 4) => {
                            group.push(y2);
                            j += 1;
                        }
                        _ => break,
                    }
                }
                if group.len() == 1 {
                    let (a, b) = if rng.chance(1, 2) { (x, y) } else { (y, x) };
                    let sp = [Sp::Prod, Sp::ProdM, Sp::ProdT, Sp::Arr1][rng.below(4) as usize];
                    out.push(Acc { sp, sub, ops: vec![a, b] });
                } else {
                    let mut ops = vec![x];
                    ops.extend(&group);
                    let sp = match group.len() {
                        2 => {
                            if rng.chance(1, 2) {
                                Sp::T2
                            } else {
                                Sp::Arr2
                            }
                        }
                        3 => {
                            if !sub && rng.chance(1, 2) {
                                Sp::T3
                            } else {
                                Sp::Arr3
                            }
                        }
                        _ => Sp::Arr4,
                    };
                    out.push(Acc { sp, sub, ops });
                }
                i = j;
            }
        }
    }
    out
}

/// ±2^s as an accumulate event: a single posit if 2^s is one, else a product of two.
fn pow2_acc(rng: &mut Prng, qt: QT, s: i32, sub: bool) -> Option<Acc> {
    if let Some(p) = pow2_posit(qt, s) {
        return Some(match rng.below(3) {
            0 => Acc { sp: Sp::One, sub, ops: vec![p] },
            1 => Acc { sp: Sp::Prod, sub, ops: vec![p, qt.one()] },
            _ => Acc { sp: Sp::Prod, sub, ops: vec![qt.one(), p] },
        });
    }
    let step = 1i32 << qt.es();
    let s1 = (s / 2).div_euclid(step) * step;
    let (a, b) = (pow2_posit(qt, s1)?, pow2_posit(qt, s - s1)?);
    Some(Acc { sp: Sp::Prod, sub, ops: if rng.chance(1, 2) { vec![a, b] } else { vec![b, a] } })
}

/// An accumulate that steers the running sum onto / next to a rounding boundary of its own
/// rounded value: ± half an ulp of Round(sum), or a power of two far below it.
fn boundary_acc(rng: &mut Prng, qt: QT, r: &Wide) -> Option<Acc> {
    if r.is_zero() {
        return None;
    }
    let rd = round_exact(qt, r);
    let p = rd.posit;
    let m = if p >> (qt.n() - 1) != 0 { qt.neg_bits(p) } else { p };
    if m == 0 || m >= qt.maxpos() {
        return None;
    }
    let gap = posit_units(qt, m + 1)?.sub(&posit_units(qt, m)?);
    let g = gap.top_bit()? as i32;
    let j = [0, 0, 0, 1, 1, 2, 3, 8, 30, 63, 64, 65, 100, 128, 200][rng.below(15) as usize];
    let s = g - 1 - j - qt.f() as i32;
    let sub = rng.chance(1, 2);
    pow2_acc(rng, qt, s, sub)
}

fn gen_t<S: Sut>(rng: &mut Prng, sw: &Swarm, st: &mut Stats, mut trace: Option<&mut dyn std::io::Write>) -> Generated {
    let qt = sw.qt;
    let mut case = Case { qt, init_via: sw.init_via, events: Vec::new() };
    let mut runner = match Runner::<S>::new(sw.init_via, sw.mode, st) {
        Ok(r) => r,
        Err(f) => return Generated { case, failure: Some(f), digest: 0, nontrivial: false },
    };
    let mut prev: Vec<u32> = Vec::new();
    let mut last_acc: Option<Acc> = None;
    let mut fired_special = false;
    let mut failure = None;
    let mut redrawn = 0u64;
    let mut fallback = 0u64;
    let mut cancels = 0u64;
    let mut boundaries = 0u64;
    for step_no in 0..sw.len {
        let mut chosen: Option<(Ev, bool, bool)> = None;
        if step_no == 0 {
            if let Some(ev) = &sw.first {
                if runner.valid(ev).is_ok() {
                    chosen = Some((ev.clone(), false, false));
                }
            }
        }
        for _try in 0..24 {
            if chosen.is_some() {
                break;
            }
            let mut kind = rng.weighted(&sw.w_event);
            // C12: a state that was just placed on a rounding boundary (injected image, boundary
            // accumulate) is the interesting input of the residual split — go there half the time
            if sw.mode == Mode::C12
                && sw.w_event[9] + sw.w_event[10] > 0
                && matches!(case.events.last(), Some(Ev::Inject(_)))
                && rng.chance(1, 2)
            {
                kind = if rng.chance(1, 2) { 9 } else { 10 };
            }
            let mut is_cancel = false;
            let mut is_boundary = false;
            let ev = match kind {
                0 => Ev::Acc(draw_acc(rng, sw, &mut prev, false)),
                1 => match &last_acc {
                    Some(a) if a.sp.has_sub() || a.sub => {
                        is_cancel = true;
                        // the same operands with the opposite sign (or one operand negated)
                        let mut c = a.clone();
                        if c.sp == Sp::T3 {
                            c.sp = Sp::Arr3;
                        }
                        if rng.chance(2, 3) || c.sp == Sp::Q22 {
                            c.sub = !c.sub;
                        } else {
                            c.ops[0] = qt.neg_bits(c.ops[0]);
                            if c.ops[0] == qt.nar() {
                                c.ops[0] = a.ops[0];
                                c.sub = !c.sub;
                            }
                        }
                        Ev::Acc(c)
                    }
                    _ => Ev::Acc(draw_acc(rng, sw, &mut prev, false)),
                },
                2 => Ev::Clear(rng.below(2) as u8),
                3 => Ev::Acc(draw_acc(rng, sw, &mut prev, true)),
                4 => Ev::Restart(rng.below(2) as u8),
                5 => Ev::Inject(structured_image(rng, qt)),
                6 => {
                    let t = case.events.iter().rev().take_while(|e| matches!(e, Ev::Acc(_))).count();
                    if t < 2 {
                        Ev::Acc(draw_acc(rng, sw, &mut prev, false))
                    } else {
                        let k = if rng.chance(1, 2) { t.min(12) } else { rng.range(2, t.min(12) as u64) as usize };
                        let n = case.events.len();
                        let seg: Vec<&Acc> = case.events[n - k..]
                            .iter()
                            .map(|e| match e {
                                Ev::Acc(a) => a,
                                _ => unreachable!(),
                            })
                            .collect();
                        Ev::Order(k, draw_alt(rng, qt, &seg))
                    }
                }
                7 => {
                    let reg = rng.weighted(&sw.w_regime);
                    let mut p = operand(rng, qt, reg, &prev, sw.small_bias);
                    if rng.chance(1, 24) {
                        p = qt.nar();
                    }
                    Ev::Load(p, rng.below(3) as u8)
                }
                8 => Ev::Neg(rng.below(2) as u8),
                9 => Ev::Split2,
                10 => Ev::Split3,
                12 => match (runner.poisoned, boundary_acc(rng, qt, &runner.r)) {
                    (false, Some(a)) => {
                        is_boundary = true;
                        Ev::Acc(a)
                    }
                    _ => Ev::Acc(draw_acc(rng, sw, &mut prev, false)),
                },
                _ => {
                    let (la, lb) = (rng.below(4) as u8, rng.below(4) as u8);
                    let (r, c, k) = if la == 3 && lb == 3 {
                        let n = rng.range(2, 3) as usize;
                        (n, n, n)
                    } else {
                        (rng.range(1, 4) as usize, rng.range(1, 4) as usize, rng.geometric(1, 8, 3, 4) as usize)
                    };
                    let mut a = Vec::with_capacity(r * k);
                    let mut b = Vec::with_capacity(k * c);
                    for _ in 0..r * k {
                        let reg = rng.weighted(&sw.w_regime);
                        a.push(operand(rng, qt, reg, &prev, sw.small_bias));
                    }
                    for _ in 0..k * c {
                        let reg = rng.weighted(&sw.w_regime);
                        b.push(operand(rng, qt, reg, &prev, sw.small_bias));
                    }
                    if rng.chance(1, 12) {
                        let i = rng.below((r * k) as u64) as usize;
                        a[i] = qt.nar();
                    }
                    Ev::MatDot { r, k, c, la, lb, a, b }
                }
            };
            if runner.valid(&ev).is_ok() {
                chosen = Some((ev, is_cancel, is_boundary));
                break;
            }
            redrawn += 1;
        }
        let (ev, is_cancel, is_boundary) = match chosen {
            Some(c) => c,
            None => {
                fallback += 1;
                (Ev::Clear(0), false, false)
            }
        };
        if is_boundary {
            boundaries += 1;
        }
        if is_cancel {
            cancels += 1;
        }
        if let Ev::Acc(a) = &ev {
            last_acc = Some(a.clone());
        } else {
            fired_special = true;
        }
        case.events.push(ev.clone());
        if let Some(t) = trace.as_mut() {
            let _ = writeln!(t, "{}", ev.text());
            let _ = t.flush();
        }
        if let Err(f) = runner.apply(&ev) {
            failure = Some(f);
            break;
        }
    }
    let digest = runner.digest();
    let nontrivial = runner.effective_terms >= 2 && (runner.any_special || fired_special);
    drop(runner);
    st.add(Pr::regen, redrawn);
    st.add(Pr::gen_fallback, fallback);
    st.add(Pr::ev_cancel_prev, cancels);
    st.add(Pr::ev_boundary, boundaries);
    Generated { case, failure, digest, nontrivial }
}
