//! C19: the crate's `Distribution<P> for Standard` impls run against a *simulated* random
//! generator behind the `rand::RngCore` seam. Real code: softposit's sampling impls and
//! rand 0.8's `gen_range`. Simulated: the RNG core (`SimRng`), driven by the run's PRNG.

use crate::posit_ref::QT;
use crate::prng::{Fnv, Prng};
use crate::stats::{Pr, Stats};
use rand::distributions::{Distribution, Standard};
use rand::{Rng, RngCore};
use softposit::{P16E1, P32E2, P8E0};
use std::panic::{catch_unwind, AssertUnwindSafe};
use std::sync::atomic::{AtomicU64, Ordering};

pub const STREAM_RNG: u64 = 19;
/// bounded liveness: draws allowed within one sample after any burst has ended
pub const PROGRESS_CAP: u32 = 1024;
pub const MAX_BURST: u32 = 8;

#[derive(Clone, Copy, PartialEq, Eq, Debug)]
pub enum Method {
    U32,
    U64,
    Fill,
}

impl Method {
    fn ch(self) -> char {
        match self {
            Method::U32 => 'w',
            Method::U64 => 'q',
            Method::Fill => 'f',
        }
    }
}

#[derive(Clone, Copy, PartialEq, Eq, Debug)]
pub enum RngMode {
    Uniform,
    StuckBurst,
    EdgeHigh,
    EdgeLow,
    LowEntropy,
    Counter,
    BitWalk,
    /// after a few uniform words the generator serves 0 for ever (as `StepRng::new(0, 0)` does).
    /// Every integer `gen_range` of rand 0.8 accepts the word 0 whatever its range (0 * range = 0
    /// is inside any acceptance zone), so rand's own draws all terminate on this stream and the
    /// sampler must return: the one *permanently* stuck stream with a sound liveness oracle.
    ZeroForever,
    /// two interleaved counters with fixed strides (a `StepRng`-like generator): stride 2^14 for
    /// P16E1 runs, stride 32 on even draws and 2^30 on odd draws for P32E2 runs, starting at a base
    /// that walks with the run index. With the crate's present ranges consecutive samples then take
    /// consecutive values of the first draw (and cycle the second), so a thorough batch serves every
    /// (first draw, second draw) combination several times; if the sampler draws differently this is
    /// just another structured stream.
    Sweep,
}

#[derive(Clone, Copy, PartialEq, Eq, Debug)]
pub enum Entry {
    /// `rng.gen::<P>()`
    Gen,
    /// `Standard.sample(&mut rng)`
    Sample,
    /// `Standard.sample_iter(&mut rng).take(n)`
    Iter,
    /// through `&mut dyn RngCore`
    Dyn,
    /// `rng.gen::<[P; 4]>()` (rand's array impl calls the crate's sampler four times)
    Arr4,
    /// `rng.gen::<(P, P)>()`
    Pair,
    /// through a zero-sized generator type (like `rand::rngs::OsRng`): a unit struct that forwards
    /// to the simulated generator
    Zst,
}

impl Entry {
    pub fn name(self) -> &'static str {
        match self {
            Entry::Gen => "gen",
            Entry::Sample => "sample",
            Entry::Iter => "iter",
            Entry::Dyn => "dyn",
            Entry::Arr4 => "arr4",
            Entry::Pair => "pair",
            Entry::Zst => "zst",
        }
    }
    pub fn parse(s: &str) -> Option<Entry> {
        match s {
            "gen" => Some(Entry::Gen),
            "sample" => Some(Entry::Sample),
            "iter" => Some(Entry::Iter),
            "dyn" => Some(Entry::Dyn),
            "arr4" => Some(Entry::Arr4),
            "pair" => Some(Entry::Pair),
            "zst" => Some(Entry::Zst),
            _ => None,
        }
    }
}

#[derive(Clone, Copy, PartialEq, Eq, Debug, Hash)]
pub enum RClause {
    Range01,
    NarSample,
    Panic,
    NoProgress,
    /// the sampler did not return within the watchdog limit (without drawing words)
    Hang,
    /// the process died inside the sampler (abort, stack overflow, fatal signal)
    Abort,
}

impl RClause {
    pub fn name(self) -> &'static str {
        match self {
            RClause::Range01 => "range01",
            RClause::NarSample => "nar_sample",
            RClause::Panic => "panic",
            RClause::NoProgress => "no_progress",
            RClause::Hang => "hang",
            RClause::Abort => "abort",
        }
    }
    pub fn parse(s: &str) -> Option<RClause> {
        [RClause::Range01, RClause::NarSample, RClause::Panic, RClause::NoProgress, RClause::Hang, RClause::Abort]
            .into_iter()
            .find(|c| c.name() == s)
    }
}

#[derive(Clone, Debug, PartialEq, Eq)]
pub struct RFailure {
    pub clause: RClause,
    /// index of the failing sample
    pub sample: usize,
    pub observed: String,
}

/// What a C19 replay file holds: the exact words the generator served.
#[derive(Clone, Debug, PartialEq, Eq)]
pub struct RCase {
    pub qt: QT,
    pub entry: Entry,
    pub nsamples: usize,
    pub words: Vec<(Method, u64)>,
}

impl RCase {
    pub fn words_text(&self) -> String {
        self.words.iter().map(|(m, v)| format!("{}{:x}", m.ch(), v)).collect::<Vec<_>>().join(" ")
    }
    pub fn parse_words(s: &str) -> Result<Vec<(Method, u64)>, String> {
        let mut out = Vec::new();
        for t in s.split_whitespace() {
            let (m, rest) = t.split_at(1);
            let m = match m {
                "w" => Method::U32,
                "q" => Method::U64,
                "f" => Method::Fill,
                _ => return Err(format!("bad word {t}")),
            };
            out.push((m, u64::from_str_radix(rest, 16).map_err(|e| e.to_string())?));
        }
        Ok(out)
    }
}

struct NoProgressMarker;
struct ScriptExhaustedMarker;

// ---------------------------------------------------------------------------------------
// The simulated generator
// ---------------------------------------------------------------------------------------

pub struct SimRng<'a> {
    rng: &'a mut Prng,
    trace: Option<Box<dyn std::io::Write>>,
    mode: RngMode,
    skew: bool,
    /// remaining draws of the current stuck burst and its word
    burst_left: u32,
    burst_word: u64,
    counter: u64,
    counter_step: u64,
    walk_pos: u32,
    zero_after: u32,
    total_draws: u32,
    sweep_a: u32,
    sweep_b: u32,
    sweep_stride_a: u32,
    sweep_two: bool,
    sweep_phase: bool,
    sweep_draws_in_sample: u32,
    pub long_bursts: u64,
    pub served: Vec<(Method, u64)>,
    /// draws since the current sample started / since the last burst ended
    draws_since_calm: u32,
    pub cap_factor: u32,
    // reach bookkeeping
    pub bursts_fired: u64,
    pub edge_fired: u64,
    pub lowent_fired: u64,
    pub wraps: u64,
    pub burst_in_first: u64,
    pub burst_in_later: u64,
    pub sample_draws: u32,
}

impl<'a> SimRng<'a> {
    pub fn new(rng: &'a mut Prng, mode: RngMode, skew: bool) -> Self {
        let counter = match rng.below(4) {
            0 => 0,
            1 => u32::MAX as u64 - rng.below(64),
            2 => u64::MAX - rng.below(64),
            _ => rng.next(),
        };
        let counter_step = match rng.below(4) {
            0 => 1,
            1 => 1 << rng.below(32),
            2 => 0x9E37_79B9 | 1,
            _ => rng.next() | 1,
        };
        SimRng {
            rng,
            trace: None,
            mode,
            skew,
            burst_left: 0,
            burst_word: 0,
            counter,
            counter_step,
            walk_pos: 0,
            zero_after: 0,
            total_draws: 0,
            sweep_a: 0,
            sweep_b: 0,
            sweep_stride_a: 32,
            sweep_two: true,
            sweep_phase: false,
            sweep_draws_in_sample: 0,
            long_bursts: 0,
            served: Vec::new(),
            draws_since_calm: 0,
            cap_factor: 1,
            bursts_fired: 0,
            edge_fired: 0,
            lowent_fired: 0,
            wraps: 0,
            burst_in_first: 0,
            burst_in_later: 0,
            sample_draws: 0,
        }
    }

    /// configure the Sweep mode: `k` is the stratum (walks with the run index), `per_run` samples
    pub fn set_sweep(&mut self, qt: QT, k: u64, per_run: u64, low: u32) {
        match qt {
            QT::Q32 => {
                // first draw value = word >> 5 (bit 4 clear = accepted), second = word >> 30 (bit 29 clear)
                let cycles = (1u64 << 27) / per_run;
                self.sweep_a = ((((k % cycles) * per_run) as u32) << 5) | (low & 0xF);
                self.sweep_b = (((k / cycles) % 4) as u32) << 30 | (low >> 4 & 0x1FFF_FFFF);
                self.sweep_stride_a = 32;
                self.sweep_two = true;
            }
            _ => {
                // one draw per sample: value = word >> 14 (bit 13 clear = accepted)
                let cycles = ((1u64 << 18) / per_run).max(1);
                self.sweep_a = ((((k % cycles) * per_run) as u32) << 14) | (low & 0x1FFF);
                self.sweep_stride_a = 1 << 14;
                self.sweep_two = false;
            }
        }
        self.sweep_phase = false;
    }

    pub fn begin_sample(&mut self) {
        self.draws_since_calm = 0;
        self.sample_draws = 0;
        self.sweep_draws_in_sample = 0;
        if let Some(t) = self.trace.as_mut() {
            let _ = writeln!(t, "\nsample");
            let _ = t.flush();
        }
    }

    fn log(&mut self, m: Method, w: u64) {
        self.served.push((m, w));
        if let Some(t) = self.trace.as_mut() {
            let _ = write!(t, " {}{:x}", m.ch(), w);
            let _ = t.flush();
        }
    }

    /// One word for a request of `bits` (32 or 64) bits.
    fn word(&mut self, bits: u32) -> u64 {
        self.sample_draws += 1;
        // bounded liveness: outside bursts at least a quarter of the words are uniform, so a
        // sampler that has not returned after PROGRESS_CAP calm draws is not making progress
        // Counter-sweep words are structured, not uniform: for ranges other than the crate's present
        // ones rand may legitimately reject a long stretch of them, so they are not counted against
        // the cap either; instead, a sample that has consumed 2048 of them gets uniform words from
        // then on (and those are counted), which keeps both the sampler and the argument alive.
        let sweeping = self.mode == RngMode::Sweep;
        if sweeping {
            self.sweep_draws_in_sample += 1;
            if self.sweep_draws_in_sample > 2048 {
                self.mode = RngMode::Uniform;
            }
        }
        if self.burst_left == 0 && self.mode != RngMode::Sweep {
            self.draws_since_calm += 1;
            if self.draws_since_calm > PROGRESS_CAP * self.cap_factor {
                std::panic::resume_unwind(Box::new(NoProgressMarker));
            }
        }
        if self.burst_left > 0 {
            self.burst_left -= 1;
            return self.burst_word;
        }
        let uniform = self.rng.next();
        self.total_draws = self.total_draws.wrapping_add(1);
        let top = |rng: &mut Prng, k: u32, ones: bool| -> u64 {
            // top k bits (of `bits`) all ones / all zeros, random below
            let r = rng.next();
            let lowmask = if k >= bits { 0 } else { (1u64 << (bits - k)) - 1 };
            let low = r & lowmask;
            let v = if ones {
                let all = if bits == 64 { u64::MAX } else { (1u64 << bits) - 1 };
                (all & !lowmask) | low
            } else {
                low
            };
            if bits == 32 {
                v | (r & 0xFFFF_FFFF_0000_0000)
            } else {
                v
            }
        };
        match self.mode {
            RngMode::Uniform => uniform,
            RngMode::StuckBurst => {
                if self.rng.chance(1, 6) {
                    self.bursts_fired += 1;
                    if self.sample_draws <= 1 {
                        self.burst_in_first += 1;
                    } else {
                        self.burst_in_later += 1;
                    }
                    self.burst_left = self.rng.range(1, MAX_BURST as u64) as u32 - 1;
                    // rarely a *long* (still bounded) burst: a generator stuck for up to 2^17 draws.
                    // Draws inside a burst are not counted against the liveness cap.
                    if self.rng.chance(1, 48) {
                        self.burst_left = 1u32 << self.rng.range(10, 17);
                        self.long_bursts += 1;
                    }
                    self.burst_word = match self.rng.below(6) {
                        0 => 0,
                        1 => u64::MAX,
                        2 => 0x8000_0000,
                        3 => 0x8000_0000_8000_0000,
                        4 => 0x7FFF_FFFF_7FFF_FFFF,
                        _ => self.rng.next(),
                    };
                    self.burst_word
                } else {
                    uniform
                }
            }
            RngMode::EdgeHigh | RngMode::EdgeLow => {
                if self.rng.chance(1, 4) {
                    uniform
                } else {
                    self.edge_fired += 1;
                    let k = self.rng.range(6, 32) as u32;
                    let ones = self.mode == RngMode::EdgeHigh;
                    top(self.rng, k, ones)
                }
            }
            RngMode::LowEntropy => {
                if self.rng.chance(1, 4) {
                    uniform
                } else {
                    self.lowent_fired += 1;
                    let mut v = 0u64;
                    for _ in 0..self.rng.below(4) {
                        v |= 1u64 << self.rng.below(bits as u64);
                    }
                    if self.rng.chance(1, 2) {
                        v = !v;
                    }
                    v
                }
            }
            RngMode::Counter => {
                if self.rng.chance(1, 4) {
                    uniform
                } else {
                    let before = self.counter;
                    self.counter = self.counter.wrapping_add(self.counter_step);
                    if (before as u32) > (self.counter as u32) || before > self.counter {
                        self.wraps += 1;
                    }
                    before
                }
            }
            RngMode::Sweep => {
                let w = if self.sweep_two && self.sweep_phase {
                    let v = self.sweep_b;
                    self.sweep_b = self.sweep_b.wrapping_add(1 << 30);
                    v
                } else {
                    let v = self.sweep_a;
                    self.sweep_a = self.sweep_a.wrapping_add(self.sweep_stride_a);
                    v
                };
                self.sweep_phase = !self.sweep_phase;
                (w as u64) | ((w as u64) << 32)
            }
            RngMode::ZeroForever => {
                if self.zero_after == 0 {
                    self.zero_after = 1 + self.rng.below(6) as u32;
                }
                if self.total_draws > self.zero_after {
                    0
                } else {
                    uniform
                }
            }
            RngMode::BitWalk => {
                // words with a boundary between ones and zeros walking through every bit position:
                // hits every power-of-two boundary of any range mapping
                if self.rng.chance(1, 4) {
                    uniform
                } else {
                    self.edge_fired += 1;
                    let pos = self.walk_pos % (bits + 1);
                    self.walk_pos = self.walk_pos.wrapping_add(1 + self.rng.below(3) as u32);
                    let ones = if pos == 0 { 0 } else { (((1u128 << pos) - 1) << (bits - pos)) as u64 };
                    let r = self.rng.next();
                    let lowmask = if pos >= bits { 0 } else { (1u64 << (bits - pos)) - 1 };
                    match self.rng.below(4) {
                        0 => ones,
                        1 => ones | lowmask,
                        2 => !ones & ((1u128 << bits) - 1) as u64 & !(r & lowmask & 0xF),
                        _ => ones | (r & lowmask & (lowmask >> 1)),
                    }
                }
            }
        }
    }
}

impl<'a> RngCore for SimRng<'a> {
    fn next_u32(&mut self) -> u32 {
        let w = self.word(32) as u32;
        self.log(Method::U32, w as u64);
        w
    }
    fn next_u64(&mut self) -> u64 {
        // width skew: the RngCore contract does not relate next_u64 to next_u32, so a 64-bit
        // request is served from its own word (never two 32-bit words glued together)
        let mut w = self.word(64);
        if self.skew {
            w = w.rotate_left(32) ^ 0x5555_5555_0000_0000;
        }
        self.log(Method::U64, w);
        w
    }
    fn fill_bytes(&mut self, dest: &mut [u8]) {
        for chunk in dest.chunks_mut(8) {
            let mut w = self.word(64);
            if self.skew {
                w = !w.rotate_left(17);
            }
            self.log(Method::Fill, w);
            let b = w.to_le_bytes();
            chunk.copy_from_slice(&b[..chunk.len()]);
        }
    }
    fn try_fill_bytes(&mut self, dest: &mut [u8]) -> Result<(), rand::Error> {
        self.fill_bytes(dest);
        Ok(())
    }
}

/// Replay generator: serves exactly the recorded words, fails loudly when asked for more.
pub struct ScriptedRng {
    words: Vec<(Method, u64)>,
    pos: usize,
}

impl ScriptedRng {
    pub fn new(words: Vec<(Method, u64)>) -> Self {
        ScriptedRng { words, pos: 0 }
    }
    fn take(&mut self) -> u64 {
        if self.pos >= self.words.len() {
            std::panic::resume_unwind(Box::new(ScriptExhaustedMarker));
        }
        let v = self.words[self.pos].1;
        self.pos += 1;
        v
    }
    pub fn consumed(&self) -> usize {
        self.pos
    }
}

impl RngCore for ScriptedRng {
    fn next_u32(&mut self) -> u32 {
        self.take() as u32
    }
    fn next_u64(&mut self) -> u64 {
        self.take()
    }
    fn fill_bytes(&mut self, dest: &mut [u8]) {
        for chunk in dest.chunks_mut(8) {
            let b = self.take().to_le_bytes();
            chunk.copy_from_slice(&b[..chunk.len()]);
        }
    }
    fn try_fill_bytes(&mut self, dest: &mut [u8]) -> Result<(), rand::Error> {
        self.fill_bytes(dest);
        Ok(())
    }
}

// ---------------------------------------------------------------------------------------
// Calling the real sampler
// ---------------------------------------------------------------------------------------

thread_local! {
    /// where the zero-sized generator forwards to (a pointer to a `&mut dyn RngCore` on the stack
    /// of the `sample_call` frame that is currently running on this thread)
    static ZST_TARGET: std::cell::Cell<*mut ()> = std::cell::Cell::new(std::ptr::null_mut());
}

/// A generator type with no fields, as `rand::rngs::OsRng` is.
pub struct ZstRng;

fn zst_target<T>(f: impl FnOnce(&mut dyn RngCore) -> T) -> T {
    let p = ZST_TARGET.with(|t| t.get());
    assert!(!p.is_null(), "harness: ZstRng used outside sample_call");
    // SAFETY: the pointer was set by the `sample_call` frame that is calling us (same thread) and
    // points at a live `&mut dyn RngCore` in that frame; it is cleared/overwritten before reuse.
    let r: &mut &mut dyn RngCore = unsafe { &mut *(p as *mut &mut dyn RngCore) };
    f(&mut **r)
}

impl RngCore for ZstRng {
    fn next_u32(&mut self) -> u32 {
        zst_target(|r| r.next_u32())
    }
    fn next_u64(&mut self) -> u64 {
        zst_target(|r| r.next_u64())
    }
    fn fill_bytes(&mut self, dest: &mut [u8]) {
        zst_target(|r| r.fill_bytes(dest))
    }
    fn try_fill_bytes(&mut self, dest: &mut [u8]) -> Result<(), rand::Error> {
        zst_target(|r| r.try_fill_bytes(dest))
    }
}

/// One call into the crate's sampler through `entry`; pushes every posit it produced.
/// Returns the first one (the only one for the single-sample entries).
fn sample_call<R: RngCore>(qt: QT, entry: Entry, rng: &mut R, out: &mut Vec<u32>) {
    macro_rules! go {
        ($P:ty) => {{
            match entry {
                Entry::Gen | Entry::Iter => {
                    let p: $P = rng.gen();
                    out.push(p.to_bits() as u32);
                }
                Entry::Sample => {
                    let p: $P = Standard.sample(rng);
                    out.push(p.to_bits() as u32);
                }
                Entry::Dyn => {
                    let d: &mut dyn RngCore = rng;
                    let p: $P = d.gen();
                    out.push(p.to_bits() as u32);
                }
                Entry::Arr4 => {
                    let a: [$P; 4] = rng.gen();
                    for p in a {
                        out.push(p.to_bits() as u32);
                    }
                }
                Entry::Pair => {
                    let (a, b): ($P, $P) = rng.gen();
                    out.push(a.to_bits() as u32);
                    out.push(b.to_bits() as u32);
                }
                Entry::Zst => {
                    let mut target: &mut dyn RngCore = rng;
                    ZST_TARGET.with(|t| t.set(&mut target as *mut &mut dyn RngCore as *mut ()));
                    let mut z = ZstRng;
                    let p: $P = z.gen();
                    ZST_TARGET.with(|t| t.set(std::ptr::null_mut()));
                    out.push(p.to_bits() as u32);
                }
            }
        }};
    }
    match qt {
        QT::Q8 => go!(P8E0),
        QT::Q16 => go!(P16E1),
        QT::Q32 => go!(P32E2),
    }
}

fn sample_one<R: RngCore>(qt: QT, entry: Entry, rng: &mut R) -> Vec<u32> {
    let mut v = Vec::with_capacity(4);
    sample_call(qt, entry, rng, &mut v);
    v
}

fn sample_iter<R: RngCore>(qt: QT, n: usize, rng: &mut R, out: &mut Vec<u32>) {
    macro_rules! go {
        ($P:ty) => {{
            let it = rand::distributions::Distribution::<$P>::sample_iter(Standard, rng);
            for p in it.take(n) {
                out.push(p.to_bits() as u32);
            }
        }};
    }
    match qt {
        QT::Q8 => go!(P8E0),
        QT::Q16 => go!(P16E1),
        QT::Q32 => go!(P32E2),
    }
}

/// The oracle for one sample, from the bit pattern alone (posit encodings are monotone):
/// real and in [0,1)  <=>  sign bit clear and pattern below the pattern of 1.
pub fn judge(qt: QT, bits: u32) -> Option<RClause> {
    let bits = bits & qt.mask();
    if bits == qt.nar() {
        Some(RClause::NarSample)
    } else if bits >= qt.one() {
        // covers negative patterns (sign bit set) and everything >= 1
        Some(RClause::Range01)
    } else {
        None
    }
}

enum Caught {
    NoProgress,
    Exhausted,
    Panic(String),
}

fn classify(e: Box<dyn std::any::Any + Send>) -> Caught {
    if e.is::<NoProgressMarker>() {
        Caught::NoProgress
    } else if e.is::<ScriptExhaustedMarker>() {
        Caught::Exhausted
    } else if let Some(s) = e.downcast_ref::<&str>() {
        Caught::Panic(crate::quire::one_line(s))
    } else if let Some(s) = e.downcast_ref::<String>() {
        Caught::Panic(crate::quire::one_line(s))
    } else {
        Caught::Panic("panic".into())
    }
}

pub enum ROutcome {
    Ok,
    /// the script ran out before `nsamples` samples were produced (minimiser candidates only)
    Invalid(String),
    Fail(RFailure),
}

/// Replay path: no PRNG below this call.
pub fn run_rcase(case: &RCase) -> (ROutcome, Vec<u32>) {
    let mut rng = ScriptedRng::new(case.words.clone());
    let mut outs = Vec::new();
    if case.entry == Entry::Iter {
        let r = catch_unwind(AssertUnwindSafe(|| {
            let mut o = Vec::new();
            sample_iter(case.qt, case.nsamples, &mut rng, &mut o);
            o
        }));
        match r {
            Ok(o) => {
                for (i, &b) in o.iter().enumerate() {
                    if let Some(c) = judge(case.qt, b) {
                        return (
                            ROutcome::Fail(RFailure { clause: c, sample: i, observed: format!("sample = {:x}", b) }),
                            o,
                        );
                    }
                }
                (ROutcome::Ok, o)
            }
            Err(e) => match classify(e) {
                Caught::Exhausted => (ROutcome::Invalid("script exhausted".into()), outs),
                Caught::NoProgress => unreachable!(),
                Caught::Panic(m) => (
                    ROutcome::Fail(RFailure { clause: RClause::Panic, sample: 0, observed: format!("panic: {m}") }),
                    outs,
                ),
            },
        }
    } else {
        for i in 0..case.nsamples {
            let r = catch_unwind(AssertUnwindSafe(|| sample_one(case.qt, case.entry, &mut rng)));
            match r {
                Ok(bs) => {
                    for b in bs {
                        outs.push(b);
                        if let Some(c) = judge(case.qt, b) {
                            return (
                                ROutcome::Fail(RFailure { clause: c, sample: i, observed: format!("sample = {:x}", b) }),
                                outs,
                            );
                        }
                    }
                }
                Err(e) => match classify(e) {
                    Caught::Exhausted => {
                        // a recorded no-progress case replays as "the sampler wants more than
                        // PROGRESS_CAP calm words": report it as such when the script is that long
                        if case.words.len() as u32 > PROGRESS_CAP {
                            return (
                                ROutcome::Fail(RFailure {
                                    clause: RClause::NoProgress,
                                    sample: i,
                                    observed: format!("no sample after {} words", case.words.len()),
                                }),
                                outs,
                            );
                        }
                        return (ROutcome::Invalid("script exhausted".into()), outs);
                    }
                    Caught::NoProgress => unreachable!(),
                    Caught::Panic(m) => {
                        return (
                            ROutcome::Fail(RFailure { clause: RClause::Panic, sample: i, observed: format!("panic: {m}") }),
                            outs,
                        )
                    }
                },
            }
        }
        (ROutcome::Ok, outs)
    }
}

/// Shared bitmap of distinct outcomes (one bit per posit pattern).
pub struct Bitmap {
    bits: Vec<AtomicU64>,
}

impl Bitmap {
    pub fn new(nbits: u64) -> Self {
        let n = ((nbits + 63) / 64) as usize;
        let mut v = Vec::with_capacity(n);
        v.resize_with(n, || AtomicU64::new(0));
        Bitmap { bits: v }
    }
    #[inline]
    pub fn set(&self, i: u64) {
        let w = (i / 64) as usize % self.bits.len();
        let m = 1u64 << (i % 64);
        if self.bits[w].load(Ordering::Relaxed) & m == 0 {
            self.bits[w].fetch_or(m, Ordering::Relaxed);
        }
    }
    pub fn count(&self) -> u64 {
        self.bits.iter().map(|w| w.load(Ordering::Relaxed).count_ones() as u64).sum()
    }
}

#[derive(Clone)]
pub struct RGenerated {
    pub case: RCase,
    pub failure: Option<RFailure>,
    pub digest: u64,
    /// word-index where each sample started (per-sample entries)
    pub starts: Vec<usize>,
}

pub fn generate_and_run(seed: u64, run: u64, st: &mut Stats, outcomes: &[Bitmap; 3]) -> RGenerated {
    generate_and_run_traced(seed, run, st, outcomes, None)
}

/// As `generate_and_run`; with a trace sink the configuration and every served word are written
/// (and flushed) as they happen, so a sampler that never returns leaves the stream that hangs it.
pub fn generate_and_run_traced(seed: u64, run: u64, st: &mut Stats, outcomes: &[Bitmap; 3], mut trace: Option<Box<dyn std::io::Write>>) -> RGenerated {
    let mut rng = Prng::for_run(seed, STREAM_RNG, run);
    // one run in sixteen is a Sweep run (see RngMode::Sweep): its type and stratum come from the
    // run index (offset by the seed), everything else from the PRNG as usual
    let sweep = if run % 16 == 7 { Some((run / 16).wrapping_add(seed % 1_000_003)) } else { None };
    let mut qt = match rng.weighted(&[2, 5, 5]) {
        0 => QT::Q8,
        1 => QT::Q16,
        _ => QT::Q32,
    };
    if let Some(k) = sweep {
        qt = if k % 8 == 0 { QT::Q16 } else { QT::Q32 };
    }
    st.hit(match qt {
        QT::Q8 => Pr::rng_runs_p8,
        QT::Q16 => Pr::rng_runs_p16,
        QT::Q32 => Pr::rng_runs_p32,
    });
    let mut nsamples = rng.geometric(1, 64, 15, 16) as usize;
    let mut mode = [
        RngMode::Uniform,
        RngMode::StuckBurst,
        RngMode::EdgeHigh,
        RngMode::EdgeLow,
        RngMode::LowEntropy,
        RngMode::Counter,
        RngMode::BitWalk,
        RngMode::ZeroForever,
    ][rng.weighted(&[6, 6, 8, 6, 4, 4, 6, 1])];
    if sweep.is_some() {
        mode = RngMode::Sweep;
        nsamples = 256;
    }
    st.hit(match mode {
        RngMode::Uniform => Pr::rng_mode_uniform,
        RngMode::StuckBurst => Pr::rng_mode_stuck,
        RngMode::EdgeHigh => Pr::rng_mode_edge_hi,
        RngMode::EdgeLow => Pr::rng_mode_edge_lo,
        RngMode::LowEntropy => Pr::rng_mode_lowent,
        RngMode::Counter => Pr::rng_mode_counter,
        RngMode::BitWalk => Pr::rng_mode_bitwalk,
        RngMode::ZeroForever => Pr::rng_mode_zero,
        RngMode::Sweep => Pr::rng_mode_sweep,
    });
    let skew = rng.chance(1, 2);
    if skew {
        st.hit(Pr::rng_skew);
    }
    let mut entry = [Entry::Gen, Entry::Sample, Entry::Iter, Entry::Dyn, Entry::Arr4, Entry::Pair, Entry::Zst][rng.weighted(&[8, 6, 4, 4, 1, 1, 2])];
    if sweep.is_some() && matches!(entry, Entry::Arr4 | Entry::Pair) {
        entry = Entry::Gen;
    }
    st.hit(match entry {
        Entry::Gen => Pr::rng_entry_gen,
        Entry::Sample => Pr::rng_entry_sample,
        Entry::Iter => Pr::rng_entry_iter,
        Entry::Dyn => Pr::rng_entry_dyn,
        Entry::Arr4 | Entry::Pair => Pr::rng_entry_multi,
        Entry::Zst => Pr::rng_entry_zst,
    });
    if let Some(t) = trace.as_mut() {
        let _ = writeln!(t, "type {}\nentry {}\nnsamples {}", qt.pname(), entry.name(), nsamples);
        let _ = t.flush();
    }
    let low = rng.next() as u32;
    let mut sim = SimRng::new(&mut rng, mode, skew);
    if let Some(k) = sweep {
        sim.set_sweep(qt, k, 256, low);
    }
    sim.trace = trace;
    let mut failure: Option<RFailure> = None;
    let mut outs: Vec<u32> = Vec::new();
    let mut starts: Vec<usize> = Vec::new();
    if entry == Entry::Iter {
        sim.begin_sample();
        sim.cap_factor = nsamples as u32;
        starts.push(0);
        let r = catch_unwind(AssertUnwindSafe(|| {
            let mut o = Vec::new();
            sample_iter(qt, nsamples, &mut sim, &mut o);
            o
        }));
        match r {
            Ok(o) => outs = o,
            Err(e) => {
                failure = Some(match classify(e) {
                    Caught::NoProgress => RFailure {
                        clause: RClause::NoProgress,
                        sample: 0,
                        observed: format!("no progress after {} words", sim.served.len()),
                    },
                    Caught::Panic(m) => RFailure { clause: RClause::Panic, sample: 0, observed: format!("panic: {m}") },
                    Caught::Exhausted => unreachable!(),
                })
            }
        }
    } else {
        sim.cap_factor = match entry {
            Entry::Arr4 => 4,
            Entry::Pair => 2,
            _ => 1,
        };
        for i in 0..nsamples {
            sim.begin_sample();
            starts.push(sim.served.len());
            let r = catch_unwind(AssertUnwindSafe(|| sample_one(qt, entry, &mut sim)));
            match r {
                Ok(bs) => {
                    for b in bs {
                        if failure.is_none() {
                            if let Some(c) = judge(qt, b) {
                                failure = Some(RFailure { clause: c, sample: i, observed: format!("sample = {:x}", b) });
                            }
                        }
                        outs.push(b);
                    }
                    if failure.is_some() {
                        break;
                    }
                }
                Err(e) => {
                    failure = Some(match classify(e) {
                        Caught::NoProgress => RFailure {
                            clause: RClause::NoProgress,
                            sample: i,
                            observed: format!("no sample after {} calm words", PROGRESS_CAP),
                        },
                        Caught::Panic(m) => RFailure { clause: RClause::Panic, sample: i, observed: format!("panic: {m}") },
                        Caught::Exhausted => unreachable!(),
                    });
                    break;
                }
            }
            // rejection-loop length of this sample
            let used = sim.sample_draws;
            let per = match entry {
                Entry::Arr4 => 4,
                Entry::Pair => 2,
                _ => 1,
            };
            let minimal = per * match qt {
                QT::Q32 => 2,
                _ => 1,
            };
            if used > minimal {
                st.hit(Pr::rng_reject1);
            }
            if used >= minimal + 4 {
                st.hit(Pr::rng_reject4);
            }
        }
    }
    // judge outcomes (the iterator entry; the per-call entries were judged as they came)
    if failure.is_none() && entry == Entry::Iter {
        for (i, &b) in outs.iter().enumerate() {
            if let Some(c) = judge(qt, b) {
                failure = Some(RFailure { clause: c, sample: i, observed: format!("sample = {:x}", b) });
                break;
            }
        }
    }
    // probes and measures
    let mut digest = Fnv::new();
    digest.u64(qt as u64);
    let idx = qt as usize;
    for &b in &outs {
        digest.u64(b as u64);
        outcomes[idx].set(b as u64);
        if b == 0 {
            st.hit(Pr::rng_out_zero);
        } else if b == 1 {
            st.hit(Pr::rng_out_min);
        }
        if b == qt.one() - 1 {
            st.hit(Pr::rng_out_max);
        }
    }
    for (m, w) in &sim.served {
        digest.u64(*w);
        st.hit(match m {
            Method::U32 => Pr::rng_via_u32,
            Method::U64 => Pr::rng_via_u64,
            Method::Fill => Pr::rng_via_fill,
        });
    }
    // probes that assume rand 0.8's widening-multiply mapping and the crate's present ranges
    // (informational only: they say which corners of the present code were reached)
    if !matches!(entry, Entry::Iter | Entry::Arr4 | Entry::Pair) {
        for (i, &s) in starts.iter().enumerate() {
            let e = if i + 1 < starts.len() { starts[i + 1] } else { sim.served.len() };
            if e <= s || i >= outs.len() {
                continue;
            }
            match qt {
                QT::Q16 => {
                    let ui = (sim.served[e - 1].1 as u32) >> 14;
                    if ui >= 0x3FFF0 {
                        st.hit(Pr::rng_p16_top16);
                    }
                    if ui & 0xF_FFF8 == 0 {
                        st.hit(Pr::rng_p16_early);
                    }
                }
                QT::Q32 => {
                    let s2 = (sim.served[e - 1].1 as u32) >> 30;
                    st.hit([Pr::rng_p32_s2_0, Pr::rng_p32_s2_1, Pr::rng_p32_s2_2, Pr::rng_p32_s2_3][s2 as usize]);
                    // the accepted first draw is the last word before the s2 phase with bit 4 clear
                    let firsts: Vec<u32> = sim.served[s..e - 1].iter().map(|x| x.1 as u32).filter(|w| w & 0x10 == 0).collect();
                    if let Some(&w) = firsts.first() {
                        let sv = w >> 5;
                        if sv == 0 {
                            st.hit(Pr::rng_p32_s_lo);
                        }
                        if sv == 0x07FF_FFFF {
                            st.hit(Pr::rng_p32_s_hi);
                        }
                    }
                }
                QT::Q8 => {}
            }
        }
    }
    st.add(Pr::rng_samples, outs.len() as u64);
    st.add(Pr::rng_words, sim.served.len() as u64);
    st.steps += sim.served.len() as u64;
    st.add(Pr::rng_burst_fired, sim.bursts_fired);
    st.add(Pr::rng_long_burst, sim.long_bursts);
    st.add(Pr::rng_edge_fired, sim.edge_fired);
    st.add(Pr::rng_lowent_fired, sim.lowent_fired);
    st.add(Pr::rng_counter_wrap, sim.wraps);
    st.add(Pr::rng_burst_first, sim.burst_in_first);
    st.add(Pr::rng_burst_second, sim.burst_in_later);
    let words = std::mem::take(&mut sim.served);
    drop(sim);
    RGenerated { case: RCase { qt, entry, nsamples, words }, failure, digest: digest.0, starts }
}

/// Shrink a failing C19 case: keep only the failing sample's words, drop rejected words,
/// clear bits of the remaining ones, simplify the entry point — keeping the same clause.
pub fn minimise(gen: &RGenerated, target: RClause) -> (RCase, RFailure) {
    let fails = |c: &RCase| -> Option<RFailure> {
        match run_rcase(c).0 {
            ROutcome::Fail(f) if f.clause == target => Some(f),
            _ => None,
        }
    };
    let mut best = gen.case.clone();
    let orig = gen.failure.clone().unwrap();
    // no_progress and truncated scripts: the replay of the full script is what reproduces
    let mut bestf = match fails(&best) {
        Some(f) => f,
        None => return (best, orig),
    };
    // 1. the failing sample alone
    if best.entry != Entry::Iter && bestf.sample < gen.starts.len() {
        let s = gen.starts[bestf.sample];
        let e = if bestf.sample + 1 < gen.starts.len() { gen.starts[bestf.sample + 1] } else { best.words.len() };
        let c = RCase { qt: best.qt, entry: best.entry, nsamples: 1, words: best.words[s..e.min(best.words.len())].to_vec() };
        if let Some(f) = fails(&c) {
            best = c;
            bestf = f;
        } else {
            // keep the prefix up to and including the failing sample
            let c = RCase { qt: best.qt, entry: best.entry, nsamples: bestf.sample + 1, words: best.words[..e.min(best.words.len())].to_vec() };
            if let Some(f) = fails(&c) {
                best = c;
                bestf = f;
            }
        }
    } else if best.entry == Entry::Iter {
        // fewer samples
        let c = RCase { nsamples: bestf.sample + 1, ..best.clone() };
        if let Some(f) = fails(&c) {
            best = c;
            bestf = f;
        }
    }
    if target == RClause::NoProgress {
        return (best, bestf);
    }
    // 2. drop words: halving chunks first (long bursts), then single words; bounded effort
    let mut evals = 0u32;
    let mut chunk = (best.words.len() / 2).max(1);
    loop {
        let mut i = 0;
        while i < best.words.len() && evals < 4000 {
            let end = (i + chunk).min(best.words.len());
            let mut c = best.clone();
            c.words.drain(i..end);
            evals += 1;
            if let Some(f) = fails(&c) {
                best = c;
                bestf = f;
            } else {
                i += chunk;
            }
        }
        if chunk == 1 || evals >= 4000 {
            break;
        }
        chunk = (chunk / 2).max(1);
    }
    // trailing unused words
    {
        let mut rng = ScriptedRng::new(best.words.clone());
        let _ = catch_unwind(AssertUnwindSafe(|| {
            for _ in 0..best.nsamples {
                let _ = sample_one(best.qt, if best.entry == Entry::Iter { Entry::Gen } else { best.entry }, &mut rng);
            }
        }));
        let used = rng.consumed();
        if used < best.words.len() {
            let mut c = best.clone();
            c.words.truncate(used);
            if let Some(f) = fails(&c) {
                best = c;
                bestf = f;
            }
        }
    }
    // 3. simpler entry point
    for e in [Entry::Gen] {
        if best.entry != e && !matches!(best.entry, Entry::Arr4 | Entry::Pair) {
            let c = RCase { entry: e, ..best.clone() };
            if let Some(f) = fails(&c) {
                best = c;
                bestf = f;
            }
        }
    }
    // 4. clear bits (short scripts only)
    for wi in 0..best.words.len().min(64) {
        let mut c = best.clone();
        c.words[wi].1 = 0;
        if let Some(f) = fails(&c) {
            best = c;
            bestf = f;
            continue;
        }
        for b in 0..64 {
            if best.words[wi].1 >> b & 1 == 0 {
                continue;
            }
            let mut c = best.clone();
            c.words[wi].1 &= !(1u64 << b);
            if let Some(f) = fails(&c) {
                best = c;
                bestf = f;
            }
        }
    }
    (best, bestf)
}
