//! Events of a simulated quire history and their text form (replay files).

use crate::posit_ref::QT;
use crate::sut::{Img, Sp};

#[derive(Clone, PartialEq, Eq, Debug, Hash)]
pub struct Acc {
    pub sp: Sp,
    pub sub: bool,
    pub ops: Vec<u32>,
}

impl Acc {
    pub fn has_nar(&self, qt: QT) -> bool {
        self.ops.iter().any(|&p| p == qt.nar())
    }
    pub fn text(&self) -> String {
        let mut s = format!("{} {}", if self.sub { "-=" } else { "+=" }, self.sp.name());
        for o in &self.ops {
            s.push_str(&format!(" {:x}", o));
        }
        s
    }
    pub fn parse(tok: &[&str]) -> Result<Acc, String> {
        if tok.len() < 3 {
            return Err("acc: too few tokens".into());
        }
        let sub = match tok[0] {
            "+=" => false,
            "-=" => true,
            x => return Err(format!("acc: bad sign {x}")),
        };
        let sp = Sp::parse(tok[1]).ok_or_else(|| format!("acc: bad spelling {}", tok[1]))?;
        let ops: Result<Vec<u32>, _> = tok[2..].iter().map(|t| u32::from_str_radix(t, 16)).collect();
        let ops = ops.map_err(|e| format!("acc: {e}"))?;
        if ops.len() != sp.arity() {
            return Err("acc: wrong operand count".into());
        }
        if sub && !sp.has_sub() {
            return Err("acc: spelling has no -= form".into());
        }
        Ok(Acc { sp, sub, ops })
    }
}

#[derive(Clone, PartialEq, Eq, Debug, Hash)]
pub enum Ev {
    /// accumulate, in one of the crate's spellings
    Acc(Acc),
    /// `clear()`; via 0 inherent, 1 trait
    Clear(u8),
    /// `neg()`; via 0 inherent, 1 trait
    Neg(u8),
    /// replace the quire by `from_posit(p)` (via 0), `Q::from(p)` (1), `Quire::from_posit` (2)
    Load(u32, u8),
    /// restart from the serialised image: `img = to_bits(); drop; from_bits(img)`; via 0/1
    Restart(u8),
    /// state injection: replace the quire by `from_bits(img)` (labelled in traces)
    Inject(Img),
    /// observe `into_two_posits` on a rebuilt copy
    Split2,
    /// observe `into_three_posits` on a rebuilt copy
    Split3,
    /// order independence: a replica started from the image before the last `k` events
    /// (all accumulate events) is fed `alt` (the same multiset of mathematical terms in another
    /// order / grouping) and must end with the same image
    Order(usize, Vec<Acc>),
    /// client workload: r×k by k×c matrix product through `quire_dot` (does not touch the
    /// history's quire; every output element is its own cleared-quire history)
    MatDot { r: usize, k: usize, c: usize, la: u8, lb: u8, a: Vec<u32>, b: Vec<u32> },
}

impl Ev {
    pub fn kind(&self) -> usize {
        match self {
            Ev::Acc(_) => 0,
            Ev::Clear(_) => 1,
            Ev::Neg(_) => 2,
            Ev::Load(..) => 3,
            Ev::Restart(_) => 4,
            Ev::Inject(_) => 5,
            Ev::Split2 => 6,
            Ev::Split3 => 7,
            Ev::Order(..) => 8,
            Ev::MatDot { .. } => 9,
        }
    }
    pub const KIND_NAMES: [&'static str; 10] = [
        "acc", "clear", "neg", "load", "restart", "inject", "split2", "split3", "order", "matdot",
    ];
    pub fn text(&self) -> String {
        match self {
            Ev::Acc(a) => format!("acc {}", a.text()),
            Ev::Clear(v) => format!("clear {v}"),
            Ev::Neg(v) => format!("neg {v}"),
            Ev::Load(p, v) => format!("load {v} {:x}", p),
            Ev::Restart(v) => format!("restart {v}"),
            Ev::Inject(img) => {
                let mut s = String::from("inject");
                for l in img {
                    s.push_str(&format!(" {:x}", l));
                }
                s
            }
            Ev::Split2 => "split2".into(),
            Ev::Split3 => "split3".into(),
            Ev::MatDot { r, k, c, la, lb, a, b } => {
                let mut s = format!("matdot {r} {k} {c} {la} {lb} a");
                for x in a {
                    s.push_str(&format!(" {:x}", x));
                }
                s.push_str(" b");
                for x in b {
                    s.push_str(&format!(" {:x}", x));
                }
                s
            }
            Ev::Order(k, alt) => {
                let mut s = format!("order {k}");
                for a in alt {
                    s.push_str(" | ");
                    s.push_str(&a.text());
                }
                s
            }
        }
    }
    pub fn parse(line: &str) -> Result<Ev, String> {
        let tok: Vec<&str> = line.split_whitespace().collect();
        if tok.is_empty() {
            return Err("empty event".into());
        }
        let via = |i: usize| -> Result<u8, String> {
            tok.get(i).ok_or("missing via")?.parse::<u8>().map_err(|e| e.to_string())
        };
        match tok[0] {
            "acc" => Ok(Ev::Acc(Acc::parse(&tok[1..])?)),
            "clear" => Ok(Ev::Clear(via(1)?)),
            "neg" => Ok(Ev::Neg(via(1)?)),
            "restart" => Ok(Ev::Restart(via(1)?)),
            "load" => {
                let v = via(1)?;
                let p = u32::from_str_radix(tok.get(2).ok_or("load: missing posit")?, 16)
                    .map_err(|e| e.to_string())?;
                Ok(Ev::Load(p, v))
            }
            "inject" => {
                if tok.len() != 9 {
                    return Err("inject: need 8 limbs".into());
                }
                let mut img = [0u64; 8];
                for i in 0..8 {
                    img[i] = u64::from_str_radix(tok[1 + i], 16).map_err(|e| e.to_string())?;
                }
                Ok(Ev::Inject(img))
            }
            "matdot" => {
                if tok.len() < 8 {
                    return Err("matdot: too short".into());
                }
                let r: usize = tok[1].parse().map_err(|_| "matdot: bad r")?;
                let k: usize = tok[2].parse().map_err(|_| "matdot: bad k")?;
                let c: usize = tok[3].parse().map_err(|_| "matdot: bad c")?;
                let la: u8 = tok[4].parse().map_err(|_| "matdot: bad la")?;
                let lb: u8 = tok[5].parse().map_err(|_| "matdot: bad lb")?;
                if tok[6] != "a" || tok.len() != 8 + r * k + k * c || tok[7 + r * k] != "b" {
                    return Err("matdot: bad layout".into());
                }
                let hx = |t: &&str| u32::from_str_radix(t, 16).map_err(|e| e.to_string());
                let a: Result<Vec<u32>, String> = tok[7..7 + r * k].iter().map(hx).collect();
                let b: Result<Vec<u32>, String> = tok[8 + r * k..].iter().map(hx).collect();
                Ok(Ev::MatDot { r, k, c, la, lb, a: a?, b: b? })
            }
            "split2" => Ok(Ev::Split2),
            "split3" => Ok(Ev::Split3),
            "order" => {
                let k: usize = tok.get(1).ok_or("order: missing k")?.parse().map_err(|_| "order: bad k")?;
                let rest = line.splitn(2, '|').nth(1).unwrap_or("");
                let mut alt = Vec::new();
                for part in rest.split('|') {
                    let t: Vec<&str> = part.split_whitespace().collect();
                    if t.is_empty() {
                        continue;
                    }
                    alt.push(Acc::parse(&t)?);
                }
                Ok(Ev::Order(k, alt))
            }
            x => Err(format!("unknown event {x}")),
        }
    }
}

/// A complete quire history: what a replay file holds.
#[derive(Clone, PartialEq, Eq, Debug)]
pub struct Case {
    pub qt: QT,
    /// how the initial cleared quire is obtained (Sut::init via)
    pub init_via: u8,
    pub events: Vec<Ev>,
}

#[cfg(test)]
mod tests {
    use super::*;
    use crate::sut::Sp;

    /// every event kind survives text -> parse unchanged (replay files are faithful)
    #[test]
    fn text_round_trip() {
        let acc = |sp: Sp, sub: bool| Acc { sp, sub, ops: (0..sp.arity() as u32).map(|i| 0x4000_0000 ^ (i * 0x1234_567)).collect() };
        let mut evs = vec![
            Ev::Clear(1),
            Ev::Neg(0),
            Ev::Load(0x8000_0000, 2),
            Ev::Restart(1),
            Ev::Inject([1, 2, 3, u64::MAX, 0, 0x8000_0000_0000_0000, 7, 0]),
            Ev::Split2,
            Ev::Split3,
            Ev::Order(3, vec![acc(Sp::Arr3, true), acc(Sp::One, false), acc(Sp::Q22, true)]),
            Ev::MatDot { r: 2, k: 3, c: 1, la: 2, lb: 1, a: vec![1, 2, 3, 4, 5, 6], b: vec![7, 8, 9] },
        ];
        for sp in Sp::ALL {
            evs.push(Ev::Acc(acc(sp, false)));
            if sp.has_sub() {
                evs.push(Ev::Acc(acc(sp, true)));
            }
        }
        for e in evs {
            let t = e.text();
            assert_eq!(Ev::parse(&t).unwrap(), e, "{t}");
        }
        assert!(Ev::parse("acc -= t3 1 2 3 4").is_err());
        assert!(Ev::parse("inject 1 2 3").is_err());
    }
}
