//! Fixed-width 640-bit two's-complement integer: the exact accumulator of the
//! reference model. Little-endian limbs. No dependence on the crate under test.

use std::cmp::Ordering;

pub const LIMBS: usize = 10;
pub const BITS: u32 = 64 * LIMBS as u32;

#[derive(Clone, Copy, PartialEq, Eq, Hash, Debug, PartialOrd, Ord)]
pub struct Wide(pub [u64; LIMBS]);

impl Wide {
    pub const ZERO: Wide = Wide([0; LIMBS]);

    pub fn from_u128(v: u128) -> Wide {
        let mut w = [0u64; LIMBS];
        w[0] = v as u64;
        w[1] = (v >> 64) as u64;
        Wide(w)
    }

    pub fn one_shl(sh: u32) -> Wide {
        Wide::from_u128(1).shl(sh)
    }

    pub fn is_zero(&self) -> bool {
        self.0.iter().all(|&x| x == 0)
    }

    pub fn is_neg(&self) -> bool {
        (self.0[LIMBS - 1] >> 63) != 0
    }

    pub fn add(&self, o: &Wide) -> Wide {
        let mut r = [0u64; LIMBS];
        let mut c = 0u64;
        for i in 0..LIMBS {
            let (s1, c1) = self.0[i].overflowing_add(o.0[i]);
            let (s2, c2) = s1.overflowing_add(c);
            r[i] = s2;
            c = (c1 as u64) + (c2 as u64);
        }
        Wide(r)
    }

    pub fn neg(&self) -> Wide {
        let mut r = [0u64; LIMBS];
        let mut c = 1u64;
        for i in 0..LIMBS {
            let (s, c1) = (!self.0[i]).overflowing_add(c);
            r[i] = s;
            c = c1 as u64;
        }
        Wide(r)
    }

    pub fn sub(&self, o: &Wide) -> Wide {
        self.add(&o.neg())
    }

    pub fn abs(&self) -> Wide {
        if self.is_neg() {
            self.neg()
        } else {
            *self
        }
    }

    /// logical shift left (bits shifted out at the top are lost; callers keep values far below)
    pub fn shl(&self, sh: u32) -> Wide {
        if sh >= BITS {
            return Wide::ZERO;
        }
        let ls = (sh / 64) as usize;
        let bs = sh % 64;
        let mut r = [0u64; LIMBS];
        for i in (ls..LIMBS).rev() {
            let lo = self.0[i - ls];
            let mut v = lo << bs;
            if bs != 0 && i - ls >= 1 {
                v |= self.0[i - ls - 1] >> (64 - bs);
            }
            r[i] = v;
        }
        Wide(r)
    }

    /// signed compare
    pub fn cmp_signed(&self, o: &Wide) -> Ordering {
        match (self.is_neg(), o.is_neg()) {
            (true, false) => Ordering::Less,
            (false, true) => Ordering::Greater,
            _ => {
                for i in (0..LIMBS).rev() {
                    if self.0[i] != o.0[i] {
                        return self.0[i].cmp(&o.0[i]);
                    }
                }
                Ordering::Equal
            }
        }
    }

    /// index of the highest set bit of a non-negative value (None for zero)
    pub fn top_bit(&self) -> Option<u32> {
        for i in (0..LIMBS).rev() {
            if self.0[i] != 0 {
                return Some(i as u32 * 64 + 63 - self.0[i].leading_zeros());
            }
        }
        None
    }

    /// index of the lowest set bit (None for zero)
    pub fn low_bit(&self) -> Option<u32> {
        for i in 0..LIMBS {
            if self.0[i] != 0 {
                return Some(i as u32 * 64 + self.0[i].trailing_zeros());
            }
        }
        None
    }

    #[inline]
    pub fn bit(&self, i: u32) -> bool {
        if i >= BITS {
            return false;
        }
        (self.0[(i / 64) as usize] >> (i % 64)) & 1 != 0
    }

    /// true iff any bit strictly below index `i` is set
    pub fn any_below(&self, i: u32) -> bool {
        match self.low_bit() {
            Some(l) => l < i,
            None => false,
        }
    }

    /// |self| < 2^p  (strictly inside the symmetric range)
    pub fn abs_lt_pow2(&self, p: u32) -> bool {
        let a = self.abs();
        if a.is_neg() {
            return false; // -2^639
        }
        match a.top_bit() {
            None => true,
            Some(t) => t < p,
        }
    }

    /// Low `w` bits (w ∈ {32,128,512}) as an 8-limb image, index 0 most significant,
    /// right-aligned (the layout `Q32E2::to_bits` uses; narrower quires sit in the last limbs).
    pub fn image(&self, w: u32) -> [u64; 8] {
        let mut img = [0u64; 8];
        match w {
            32 => img[7] = self.0[0] & 0xFFFF_FFFF,
            128 => {
                img[7] = self.0[0];
                img[6] = self.0[1];
            }
            512 => {
                for i in 0..8 {
                    img[7 - i] = self.0[i];
                }
            }
            _ => unreachable!(),
        }
        img
    }

    /// Sign-extended value of a `w`-bit two's-complement image in the layout of `image`.
    pub fn from_image(img: &[u64; 8], w: u32) -> Wide {
        let mut r = [0u64; LIMBS];
        let neg;
        match w {
            32 => {
                let v = img[7] as u32;
                neg = (v >> 31) != 0;
                r[0] = if neg { (v as u64) | 0xFFFF_FFFF_0000_0000 } else { v as u64 };
                for x in r.iter_mut().skip(1) {
                    *x = if neg { u64::MAX } else { 0 };
                }
            }
            128 => {
                r[0] = img[7];
                r[1] = img[6];
                neg = (img[6] >> 63) != 0;
                for x in r.iter_mut().skip(2) {
                    *x = if neg { u64::MAX } else { 0 };
                }
            }
            512 => {
                for i in 0..8 {
                    r[i] = img[7 - i];
                }
                neg = (img[0] >> 63) != 0;
                for x in r.iter_mut().skip(8) {
                    *x = if neg { u64::MAX } else { 0 };
                }
            }
            _ => unreachable!(),
        }
        Wide(r)
    }

    pub fn hex(&self) -> String {
        let mut s = String::new();
        if self.is_neg() {
            s.push('-');
        }
        let a = self.abs();
        let mut started = false;
        for i in (0..LIMBS).rev() {
            if started {
                s.push_str(&format!("{:016x}", a.0[i]));
            } else if a.0[i] != 0 {
                s.push_str(&format!("{:x}", a.0[i]));
                started = true;
            }
        }
        if !started {
            s.push('0');
        }
        s
    }
}

#[cfg(test)]
mod tests {
    use super::*;
    #[test]
    fn basics() {
        let a = Wide::from_u128(5);
        let b = Wide::from_u128(7);
        assert_eq!(a.sub(&b), Wide::from_u128(2).neg());
        assert!(a.sub(&b).is_neg());
        assert_eq!(a.sub(&b).abs(), Wide::from_u128(2));
        assert_eq!(Wide::one_shl(130).top_bit(), Some(130));
        assert_eq!(Wide::one_shl(130).low_bit(), Some(130));
        assert_eq!(Wide::from_u128(3).shl(63).0[0], 1 << 63);
        assert_eq!(Wide::from_u128(3).shl(63).0[1], 1);
        let m1 = Wide::from_u128(1).neg();
        assert_eq!(m1.image(32), [0, 0, 0, 0, 0, 0, 0, 0xFFFF_FFFF]);
        assert_eq!(Wide::from_image(&m1.image(32), 32), m1);
        assert_eq!(Wide::from_image(&m1.image(128), 128), m1);
        assert_eq!(Wide::from_image(&m1.image(512), 512), m1);
        assert!(m1.abs_lt_pow2(1));
        assert!(!Wide::one_shl(31).abs_lt_pow2(31));
        assert!(!Wide::one_shl(31).neg().abs_lt_pow2(31));
        assert_eq!(a.cmp_signed(&m1), Ordering::Greater);
        assert_eq!(m1.hex(), "-1");
    }
}
