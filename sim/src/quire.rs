//! Quire history simulator: the real quire and the exact reference accumulator are driven
//! by the same event sequence; the oracle is evaluated after every event.
//! Serves C04 (accumulation) and C12 (state operations).

use crate::events::{Acc, Case, Ev};
use crate::posit_ref::{fields, posit_units, product_units, round_exact, QT};
use crate::prng::Fnv;
use crate::stats::{Pr, Stats};
use crate::sut::{Img, Sp, Sut};
use crate::wide::Wide;
use std::panic::{catch_unwind, AssertUnwindSafe};

#[derive(Clone, Copy, PartialEq, Eq, Debug)]
pub enum Mode {
    C04,
    C12,
}

impl Mode {
    pub fn id(self) -> &'static str {
        match self {
            Mode::C04 => "C04",
            Mode::C12 => "C12",
        }
    }
}

#[derive(Clone, Copy, PartialEq, Eq, Debug, Hash)]
pub enum Clause {
    // ---- C04
    BitImage,
    IsZero,
    IsNar,
    ToPosit,
    NarSticky,
    Order,
    MatDot,
    PanicAcc,
    /// an event (or the observers after it) did not return within the watchdog limit
    Hang,
    /// the process died inside an event (abort, stack overflow, fatal signal): not catchable in-process
    Abort,
    // ---- C12
    Neg,
    Clear,
    BitsRoundtrip,
    PositRoundtrip,
    Split2,
    Split3,
    PanicState,
}

impl Clause {
    pub const ALL: [Clause; 17] = [
        Clause::BitImage,
        Clause::IsZero,
        Clause::IsNar,
        Clause::ToPosit,
        Clause::NarSticky,
        Clause::Order,
        Clause::MatDot,
        Clause::PanicAcc,
        Clause::Hang,
        Clause::Abort,
        Clause::Neg,
        Clause::Clear,
        Clause::BitsRoundtrip,
        Clause::PositRoundtrip,
        Clause::Split2,
        Clause::Split3,
        Clause::PanicState,
    ];
    pub fn name(self) -> &'static str {
        match self {
            Clause::BitImage => "bit_image",
            Clause::IsZero => "is_zero",
            Clause::IsNar => "is_nar",
            Clause::ToPosit => "to_posit",
            Clause::NarSticky => "nar_sticky",
            Clause::Order => "order",
            Clause::MatDot => "matrix_dot",
            Clause::PanicAcc => "panic_accumulate",
            Clause::Hang => "hang",
            Clause::Abort => "abort",
            Clause::Neg => "neg",
            Clause::Clear => "clear",
            Clause::BitsRoundtrip => "bits_roundtrip",
            Clause::PositRoundtrip => "posit_roundtrip",
            Clause::Split2 => "split2",
            Clause::Split3 => "split3",
            Clause::PanicState => "panic_state_op",
        }
    }
    pub fn parse(s: &str) -> Option<Clause> {
        Clause::ALL.iter().copied().find(|c| c.name() == s)
    }
    pub fn property(self) -> Mode {
        match self {
            Clause::BitImage
            | Clause::IsZero
            | Clause::IsNar
            | Clause::ToPosit
            | Clause::NarSticky
            | Clause::Order
            | Clause::MatDot
            | Clause::Hang
            | Clause::Abort
            | Clause::PanicAcc => Mode::C04,
            _ => Mode::C12,
        }
    }
}

#[derive(Clone, Debug, PartialEq, Eq)]
pub struct Failure {
    pub clause: Clause,
    pub step: usize,
    pub expected: String,
    pub observed: String,
}

#[derive(Clone, Debug)]
pub enum Outcome {
    /// all events applied, oracle held
    Ok,
    /// an event violated a generator precondition (replay / minimiser candidates only)
    Invalid(usize, String),
    Fail(Failure),
}

fn img_hex(qt: QT, img: &Img) -> String {
    match qt {
        QT::Q8 => format!("{:08x}", img[7]),
        QT::Q16 => format!("{:016x}{:016x}", img[6], img[7]),
        QT::Q32 => img.iter().map(|l| format!("{:016x}", l)).collect::<Vec<_>>().join("_"),
    }
}

struct Snap {
    r: Wide,
    poisoned: bool,
    img: Img,
}

pub struct Runner<'a, S: Sut> {
    pub a: S,
    pub r: Wide,
    pub poisoned: bool,
    snaps: Vec<Snap>,
    evs: Vec<Ev>,
    st: &'a mut Stats,
    digest: Fnv,
    // per-run facts for the non-triviality rule and probes
    pub effective_terms: u32,
    pub any_special: bool,
    last_kind: usize,
    last_abs: u32,
    /// which property's check this run serves (decides how the other property's clauses are treated)
    mode: Mode,
}

/// one line, bounded length: panic payloads end up in replay files and machine-read lines
pub fn one_line(m: &str) -> String {
    let mut t: String = m.split_whitespace().collect::<Vec<_>>().join(" ");
    if t.len() > 300 {
        let cut = t.char_indices().take_while(|(i, _)| *i < 300).last().map(|(i, c)| i + c.len_utf8()).unwrap_or(0);
        t.truncate(cut);
        t.push('…');
    }
    t
}

fn catch<T>(f: impl FnOnce() -> T) -> Result<T, String> {
    catch_unwind(AssertUnwindSafe(f)).map_err(|e| {
        if let Some(s) = e.downcast_ref::<&str>() {
            one_line(s)
        } else if let Some(s) = e.downcast_ref::<String>() {
            one_line(s)
        } else {
            "panic".to_string()
        }
    })
}

/// exact value of each mathematical term of an accumulate event (None = has a NaR operand)
pub fn acc_terms(qt: QT, a: &Acc) -> Vec<Option<Wide>> {
    a.sp
        .terms(&a.ops)
        .into_iter()
        .map(|(x, y)| {
            let v = match y {
                Some(y) => product_units(qt, x, y),
                None => posit_units(qt, x),
            };
            v.map(|w| if a.sub { w.neg() } else { w })
        })
        .collect()
}

fn abs_state(qt: QT, r: &Wide, poisoned: bool) -> u32 {
    let t = qt as u32;
    if poisoned {
        return (t << 28) | (1 << 27);
    }
    let neg = r.is_neg() as u32;
    let m = r.abs();
    let top = m.top_bit().map(|x| x + 1).unwrap_or(0); // 0..=512
    let low = m.low_bit().map(|x| x / 64 + 1).unwrap_or(0); // 0..=8
    (t << 28) | (neg << 26) | (top << 8) | low
}

impl<'a, S: Sut> Runner<'a, S> {
    pub fn new(init_via: u8, mode: Mode, st: &'a mut Stats) -> Result<Self, Failure> {
        let a = catch(|| S::init(init_via)).map_err(|m| Failure {
            clause: Clause::PanicState,
            step: 0,
            expected: "init() returns".into(),
            observed: format!("panic: {m}"),
        })?;
        let mut digest = Fnv::new();
        digest.u64(S::QT as u64);
        digest.u64(init_via as u64);
        let mut r = Runner {
            a,
            r: Wide::ZERO,
            poisoned: false,
            snaps: Vec::new(),
            evs: Vec::new(),
            st,
            digest,
            effective_terms: 0,
            any_special: false,
            last_kind: 99,
            last_abs: 0,
            mode,
        };
        r.last_abs = abs_state(S::QT, &r.r, false);
        // the cleared quire must already satisfy the read-only observations
        r.check_model(0, Clause::Clear)?;
        Ok(r)
    }

    pub fn digest(&self) -> u64 {
        self.digest.0
    }

    fn qt(&self) -> QT {
        S::QT
    }

    fn range_ok(&self, base: &Wide, terms: &[Option<Wide>]) -> bool {
        let mut s = base.abs();
        let lim = self.qt().w() - 1;
        if !s.abs_lt_pow2(lim) {
            return false;
        }
        for t in terms.iter().flatten() {
            s = s.add(&t.abs());
            if !s.abs_lt_pow2(lim) {
                return false;
            }
        }
        true
    }

    fn trailing_accs(&self) -> usize {
        self.evs.iter().rev().take_while(|e| matches!(e, Ev::Acc(_))).count()
    }

    /// Generator precondition: is `ev` something the property statement covers in this state?
    pub fn valid(&self, ev: &Ev) -> Result<(), String> {
        let qt = self.qt();
        match ev {
            Ev::Acc(a) => {
                if a.sub && !a.sp.has_sub() {
                    return Err("spelling has no -= form".into());
                }
                if a.ops.len() != a.sp.arity() || a.ops.iter().any(|&p| p > qt.mask()) {
                    return Err("bad operands".into());
                }
                if self.poisoned {
                    return Ok(());
                }
                let terms = acc_terms(qt, a);
                if !self.range_ok(&self.r, &terms) {
                    return Err("partial sums could leave the quire range".into());
                }
                Ok(())
            }
            Ev::Clear(_) | Ev::Restart(_) => Ok(()),
            // neg of a NaR quire is covered: C04 says a NaR quire stays NaR until cleared (neg is not
            // clear), C12 says neg acts on every reachable state; the expectation is "still NaR,
            // returns". The splits of a NaR quire are left out (the statement defines p2, p3 by
            // exact subtractions on a sum).
            Ev::Neg(_) => Ok(()),
            Ev::Split2 | Ev::Split3 => {
                if self.poisoned {
                    Err("state op on a NaR quire is outside the statement".into())
                } else {
                    Ok(())
                }
            }
            Ev::Load(p, _) => {
                if *p > qt.mask() {
                    Err("bad posit".into())
                } else {
                    Ok(())
                }
            }
            Ev::Inject(img) => {
                if *img == qt.nar_image() {
                    return Err("inject of the NaR image".into());
                }
                let ok = match qt {
                    QT::Q8 => img[..7].iter().all(|&l| l == 0) && img[7] <= u32::MAX as u64,
                    QT::Q16 => img[..6].iter().all(|&l| l == 0),
                    QT::Q32 => true,
                };
                if ok {
                    Ok(())
                } else {
                    Err("image wider than the quire".into())
                }
            }
            Ev::MatDot { r, k, c, a, b, la, lb } => {
                if !cfg!(feature = "linalg") {
                    return Err("matdot: this simulator was built without the linalg client (softposit's `linalg` feature did not build)".into());
                }
                let (r, k, c) = (*r, *k, *c);
                if *la > 3 || *lb > 3 {
                    return Err("matdot: bad storage layout".into());
                }
                if r == 0 || k == 0 || c == 0 || r > 4 || c > 4 || k > 8 || a.len() != r * k || b.len() != k * c {
                    return Err("matdot: bad shape".into());
                }
                if a.iter().chain(b.iter()).any(|&p| p > qt.mask()) {
                    return Err("matdot: bad operand".into());
                }
                for i in 0..r {
                    for j in 0..c {
                        let terms: Vec<Option<Wide>> = (0..k).map(|l| product_units(qt, a[i * k + l], b[l * c + j])).collect();
                        if !self.range_ok(&Wide::ZERO, &terms) {
                            return Err("matdot: an element's partial sums could leave the quire range".into());
                        }
                    }
                }
                Ok(())
            }
            Ev::Order(k, alt) => {
                let k = *k;
                if k == 0 || k > self.trailing_accs() {
                    return Err("order: k exceeds the trailing accumulate segment".into());
                }
                let n = self.evs.len();
                let mut base: Vec<Option<Wide>> = Vec::new();
                for e in &self.evs[n - k..] {
                    if let Ev::Acc(a) = e {
                        base.extend(acc_terms(qt, a));
                    }
                }
                let mut other: Vec<Option<Wide>> = Vec::new();
                for a in alt {
                    if a.sub && !a.sp.has_sub() {
                        return Err("order: spelling has no -= form".into());
                    }
                    if a.ops.len() != a.sp.arity() || a.ops.iter().any(|&p| p > qt.mask()) {
                        return Err("order: bad operands".into());
                    }
                    other.extend(acc_terms(qt, a));
                }
                let start = &self.snaps[n - k];
                if !start.poisoned && !self.range_ok(&start.r, &base) {
                    return Err("order: some order's partial sums could leave the range".into());
                }
                // zero-valued terms do not change any sum: compare multisets without them
                let canon = |v: &mut Vec<Option<Wide>>| {
                    v.retain(|t| t.map(|w| !w.is_zero()).unwrap_or(true));
                    v.sort();
                };
                canon(&mut base);
                canon(&mut other);
                if base != other {
                    return Err("order: not the same multiset of terms".into());
                }
                Ok(())
            }
        }
    }

    fn fail(&self, clause: Clause, step: usize, expected: String, observed: String) -> Failure {
        Failure { clause, step, expected, observed }
    }

    fn expected_img(&self) -> Img {
        if self.poisoned {
            self.qt().nar_image()
        } else {
            self.r.image(self.qt().w())
        }
    }

    /// Compare every read-only observation of `self.a` with the reference state.
    /// `img_clause` names the clause an image mismatch belongs to in this context.
    fn check_model(&mut self, step: usize, img_clause: Clause) -> Result<(), Failure> {
        let qt = self.qt();
        let exp_img = self.expected_img();
        let a = &self.a;
        let obs = catch(|| {
            (
                a.img(0),
                a.img(1),
                a.is_zero(0),
                a.is_zero(1),
                a.is_nar(0),
                a.is_nar(1),
                a.to_posit(0),
                a.to_posit(1),
                a.to_posit(2),
                S::from_img(&a.img(0), 0).into_posit(),
            )
        });
        let (i0, i1, z0, z1, n0, n1, p0, p1, p2, p3) = match obs {
            Ok(v) => v,
            Err(m) => {
                let c = if img_clause.property() == Mode::C04 { Clause::PanicAcc } else { Clause::PanicState };
                // a panic in a read-only observer of a state the reference says is fine
                let c = if matches!(img_clause, Clause::BitImage | Clause::NarSticky) { Clause::PanicAcc } else { c };
                return Err(self.fail(c, step, "observers return".into(), format!("panic: {m}")));
            }
        };
        self.digest.u64(i0[0] ^ i0[7].rotate_left(17) ^ i0[6].rotate_left(31) ^ i0[3]);
        self.digest.u64(p0 as u64 | (z0 as u64) << 40 | (n0 as u64) << 41);
        for (via, i) in [(0, &i0), (1, &i1)] {
            if *i != exp_img {
                return Err(self.fail(
                    img_clause,
                    step,
                    format!("to_bits = {}", img_hex(qt, &exp_img)),
                    format!("to_bits(via {via}) = {}", img_hex(qt, i)),
                ));
            }
        }
        let exp_zero = !self.poisoned && self.r.is_zero();
        for (via, z) in [(0, z0), (1, z1)] {
            if z != exp_zero {
                return Err(self.fail(
                    Clause::IsZero,
                    step,
                    format!("is_zero = {exp_zero} (sum = {} units)", self.r.hex()),
                    format!("is_zero(via {via}) = {z}"),
                ));
            }
        }
        for (via, n) in [(0, n0), (1, n1)] {
            if n != self.poisoned {
                return Err(self.fail(
                    Clause::IsNar,
                    step,
                    format!("is_nar = {}", self.poisoned),
                    format!("is_nar(via {via}) = {n}"),
                ));
            }
        }
        let (exp_p, rd) = if self.poisoned {
            (qt.nar(), None)
        } else {
            let rd = round_exact(qt, &self.r);
            (rd.posit, Some(rd))
        };
        if let Some(rd) = rd {
            if rd.sat_max {
                self.st.hit(Pr::rnd_sat_max);
            }
            if rd.sat_min {
                self.st.hit(Pr::rnd_sat_min);
            }
            if rd.tie {
                self.st.hit(Pr::rnd_tie);
            }
            if rd.cut_zone {
                self.st.hit(Pr::rnd_cut);
                if rd.posit != rd.by_value {
                    self.st.hit(Pr::rnd_cut_differs);
                }
            }
            if rd.deep_sticky {
                self.st.hit(Pr::rnd_deep_sticky);
            }
        }
        for (via, p) in [(0, p0), (1, p1), (2, p2), (3, p3)] {
            if p != exp_p {
                return Err(self.fail(
                    Clause::ToPosit,
                    step,
                    format!("to_posit = {:x} (sum = {} units of 2^-{})", exp_p, self.r.hex(), qt.f()),
                    format!("to_posit(via {via}) = {:x}", p),
                ));
            }
        }
        Ok(())
    }

    fn note_transition(&mut self, kind: usize) {
        let s = abs_state(self.qt(), &self.r, self.poisoned);
        self.st.abs_states.insert(s);
        self.st
            .transitions
            .insert(((self.last_abs as u64) << 36) ^ ((kind as u64) << 32) ^ s as u64);
        self.last_abs = s;
    }

    fn probe_term(&mut self, before: &Wide, after: &Wide, term: &Wide) {
        let qt = self.qt();
        if term.is_zero() {
            return;
        }
        self.st.hit(Pr::terms_effective);
        self.effective_terms += 1;
        if after.is_neg() {
            self.st.hit(Pr::neg_sum);
        }
        if !before.is_zero() && !after.is_zero() && before.is_neg() != after.is_neg() {
            self.st.hit(Pr::sign_change);
            self.any_special = true;
        }
        if after.is_zero() {
            self.st.hit(Pr::cancel_zero);
            self.any_special = true;
        }
        let (tb, ta) = (before.abs().top_bit(), after.abs().top_bit());
        if let (Some(tb), Some(ta)) = (tb, ta) {
            if tb >= ta + 64 {
                self.st.hit(Pr::cancel64);
            }
            if tb.abs_diff(ta) >= 8 {
                self.any_special = true;
            }
        }
        // limbs (of the W-bit image) changed by this term beyond those the term itself occupies
        let w = qt.w();
        let ib = before.image(w);
        let ia = after.image(w);
        let tm = term.abs();
        let t_hi_limb = tm.top_bit().unwrap() / 64; // LE limb index
        let mut highest_changed = None;
        for l in 0..8usize {
            // image index 7-l is LE limb l
            if ib[7 - l] != ia[7 - l] {
                highest_changed = Some(l as u32);
            }
        }
        if let Some(hc) = highest_changed {
            if hc > t_hi_limb {
                let span = hc - t_hi_limb;
                match qt {
                    QT::Q32 => {
                        self.st.hit(Pr::carry1);
                        self.any_special = true;
                        if span >= 3 {
                            self.st.hit(Pr::carry3);
                        }
                    }
                    QT::Q16 => {
                        self.st.hit(Pr::carry_q16);
                        self.any_special = true;
                    }
                    QT::Q8 => {}
                }
            }
        }
        if let Some(ta) = ta {
            match qt {
                QT::Q32 => {
                    let p = match ta / 64 {
                        0 => Some(Pr::only_limb7),
                        1 => Some(Pr::only_limb6),
                        2 => Some(Pr::only_limb5),
                        _ => None,
                    };
                    if let Some(p) = p {
                        self.st.hit(p);
                    }
                }
                QT::Q16 => {
                    if ta < 64 {
                        self.st.hit(Pr::q16_low_only);
                    }
                }
                QT::Q8 => {}
            }
        }
    }

    /// Apply one event to the real quire and to the reference, then evaluate the oracle.
    /// The caller has checked `valid(ev)`.
    pub fn apply(&mut self, ev: &Ev) -> Result<(), Failure> {
        let qt = self.qt();
        let step = self.evs.len();
        let pre_img = self.expected_img();
        self.snaps.push(Snap { r: self.r, poisoned: self.poisoned, img: pre_img });
        self.digest.bytes(ev.text().as_bytes());
        self.st.steps += 1;
        let kind = ev.kind();
        let mut res = self.apply_inner(ev, step);
        if self.mode == Mode::C12 {
            if let Err(f) = &res {
                // a read-only observer disagrees with the reference but the accumulator image is
                // right: that is C04's finding; the run goes on, so that the state operations are
                // still exercised on this state (a split or round trip that returns the wrong
                // round(s) is then a C12 violation in its own right)
                if matches!(f.clause, Clause::IsZero | Clause::IsNar | Clause::ToPosit) {
                    self.st.hit(Pr::c04_observer_in_c12);
                    res = Ok(());
                }
            }
        }
        self.evs.push(ev.clone());
        if res.is_ok() {
            self.note_transition(kind);
            if self.last_kind == 2 && kind == 2 {
                self.st.hit(Pr::neg_twice);
            }
            if self.last_kind == 2 && kind == 0 {
                self.st.hit(Pr::neg_then_acc);
            }
            if kind == 0 && step >= 2 && self.last_kind == 4 && matches!(self.evs[step - 2], Ev::Acc(_)) {
                self.st.hit(Pr::restart_mid);
            }
            self.last_kind = kind;
        }
        let _ = qt;
        res
    }

    fn apply_inner(&mut self, ev: &Ev, step: usize) -> Result<(), Failure> {
        let qt = self.qt();
        match ev {
            Ev::Acc(acc) => {
                self.st.hit(Pr::ev_acc);
                self.st.hit(match acc.sp {
                    Sp::Prod => Pr::sp_prod,
                    Sp::ProdM => Pr::sp_prodm,
                    Sp::ProdT => Pr::sp_prodt,
                    Sp::One => Pr::sp_one,
                    Sp::T2 => Pr::sp_t2,
                    Sp::T3 => Pr::sp_t3,
                    Sp::Q22 => Pr::sp_q22,
                    _ => Pr::sp_arr,
                });
                if acc.sub {
                    self.st.hit(Pr::sp_sub);
                }
                if let Some(n) = crate::sut::px_width(qt, &acc.ops) {
                    self.st.hit(Pr::sp_px);
                    if n <= 16 {
                        self.st.hit(Pr::sp_px_narrow);
                    }
                }
                let was_poisoned = self.poisoned;
                if was_poisoned {
                    self.st.hit(Pr::acc_after_poison);
                }
                // ---- real
                let a = &mut self.a;
                if let Err(m) = catch(|| a.acc(acc.sp, acc.sub, &acc.ops)) {
                    return Err(self.fail(Clause::PanicAcc, step, "accumulate returns".into(), format!("panic: {m}")));
                }
                // ---- reference
                if !was_poisoned {
                    if acc.has_nar(qt) {
                        self.st.hit(Pr::ev_poison);
                        self.any_special = true;
                        if !self.r.is_zero() {
                            self.st.hit(Pr::poison_nonzero);
                        }
                        if acc.sp.is_compound() {
                            self.st.hit(Pr::poison_in_compound);
                        }
                        if acc.ops.iter().any(|&p| p == 0) {
                            self.st.hit(Pr::poison_zero_partner);
                        }
                        self.poisoned = true;
                        self.r = Wide::ZERO;
                    } else {
                        for (x, y) in acc.sp.terms(&acc.ops) {
                            if let (Some((nx, rx, ex)), Some((ny, ry, ey))) = (fields(qt, x), fields(qt, y.unwrap_or(qt.one()))) {
                                let c = (qt as u32) << 28
                                    | (acc.sub as u32) << 27
                                    | (y.is_none() as u32) << 26
                                    | (nx as u32) << 25
                                    | (ny as u32) << 24
                                    | rx << 17
                                    | ry << 10
                                    | ex << 4
                                    | ey;
                                self.st.prod_classes.insert(c);
                            }
                        }
                        for t in acc_terms(qt, acc).into_iter().flatten() {
                            let before = self.r;
                            self.r = self.r.add(&t);
                            let after = self.r;
                            self.probe_term(&before, &after, &t);
                        }
                    }
                }
                let c = if was_poisoned { Clause::NarSticky } else { Clause::BitImage };
                self.check_model(step, c)
            }
            Ev::Clear(via) => {
                self.st.hit(Pr::ev_clear);
                if self.poisoned {
                    self.st.hit(Pr::clear_poisoned);
                }
                let a = &mut self.a;
                if let Err(m) = catch(|| a.clear(*via)) {
                    return Err(self.fail(Clause::PanicState, step, "clear returns".into(), format!("panic: {m}")));
                }
                self.r = Wide::ZERO;
                self.poisoned = false;
                // clear(): image all zero, is_zero, to_posit = 0 — all under the `clear` clause
                self.check_model(step, Clause::Clear).map_err(|mut f| {
                    if f.clause.property() == Mode::C04 && !matches!(f.clause, Clause::PanicAcc) {
                        f.clause = Clause::Clear;
                    }
                    f
                })
            }
            Ev::Neg(via) => {
                self.st.hit(Pr::ev_neg);
                self.any_special = true;
                let m = self.r.abs();
                if self.poisoned {
                    self.st.hit(Pr::neg_of_nar);
                } else if self.r.is_zero() {
                    self.st.hit(Pr::neg_of_zero);
                } else {
                    let img = m.image(qt.w());
                    if img.iter().filter(|&&l| l != 0).count() >= 2 {
                        self.st.hit(Pr::neg_multi_limb);
                    }
                    if m.low_bit().unwrap() >= 64 {
                        self.st.hit(Pr::neg_low_zero);
                    }
                }
                let a = &mut self.a;
                if let Err(m) = catch(|| a.neg(*via)) {
                    return Err(self.fail(Clause::PanicState, step, "neg returns".into(), format!("panic: {m}")));
                }
                if !self.poisoned {
                    self.r = self.r.neg();
                }
                self.check_model(step, Clause::Neg).map_err(|mut f| {
                    // a NaR quire that neg() turned into something else fails an observer first
                    if self.poisoned && f.clause.property() == Mode::C04 && !matches!(f.clause, Clause::PanicAcc) {
                        f.clause = Clause::Neg;
                    }
                    f
                })
            }
            Ev::Load(p, via) => {
                self.st.hit(Pr::ev_load);
                self.any_special = true;
                let p = *p;
                let mag = if p >> (qt.n() - 1) != 0 { qt.neg_bits(p) } else { p };
                if p == 0 {
                    self.st.hit(Pr::load_zero);
                } else if p == qt.nar() {
                    self.st.hit(Pr::load_nar);
                } else if mag == 1 {
                    self.st.hit(Pr::load_minpos);
                } else if mag == qt.maxpos() {
                    self.st.hit(Pr::load_maxpos);
                }
                if crate::sut::px_width(qt, &[p]).is_some() {
                    self.st.hit(Pr::load_px);
                }
                match catch(|| S::load(p, *via)) {
                    Ok(q) => self.a = q,
                    Err(m) => {
                        return Err(self.fail(Clause::PanicState, step, "from_posit returns".into(), format!("panic: {m}")))
                    }
                }
                match posit_units(qt, p) {
                    None => {
                        self.poisoned = true;
                        self.r = Wide::ZERO;
                    }
                    Some(v) => {
                        self.poisoned = false;
                        self.r = v;
                    }
                }
                // the statement: converting p to its quire and back returns p
                let a = &self.a;
                match catch(|| (a.to_posit(0), a.to_posit(1), a.to_posit(2))) {
                    Ok((p0, p1, p2)) => {
                        for (v, q) in [(0, p0), (1, p1), (2, p2)] {
                            if q != p {
                                return Err(self.fail(
                                    Clause::PositRoundtrip,
                                    step,
                                    format!("from_posit({:x}).to_posit() = {:x}", p, p),
                                    format!("to_posit(via {v}) = {:x}", q),
                                ));
                            }
                        }
                    }
                    Err(m) => {
                        return Err(self.fail(Clause::PanicState, step, "to_posit returns".into(), format!("panic: {m}")))
                    }
                }
                // and the quire holds exactly p (image etc.)
                self.check_model(step, Clause::PositRoundtrip)
            }
            Ev::Restart(via) => {
                self.st.hit(Pr::ev_restart);
                self.any_special = true;
                if self.poisoned {
                    self.st.hit(Pr::restart_poisoned);
                }
                let a = &self.a;
                let before = catch(|| (a.img(*via), a.is_zero(0), a.is_nar(0), a.to_posit(0)));
                let before = match before {
                    Ok(b) => b,
                    Err(m) => {
                        return Err(self.fail(Clause::PanicState, step, "observers return".into(), format!("panic: {m}")))
                    }
                };
                let rebuilt = catch(|| {
                    let q = S::from_img(&before.0, *via);
                    let o = (q.img(*via), q.is_zero(0), q.is_nar(0), q.to_posit(0));
                    (q, o)
                });
                match rebuilt {
                    Ok((q, o)) => {
                        if o != before {
                            return Err(self.fail(
                                Clause::BitsRoundtrip,
                                step,
                                format!(
                                    "from_bits(to_bits(q)) observes as q: bits={} is_zero={} is_nar={} to_posit={:x}",
                                    img_hex(qt, &before.0),
                                    before.1,
                                    before.2,
                                    before.3
                                ),
                                format!(
                                    "bits={} is_zero={} is_nar={} to_posit={:x}",
                                    img_hex(qt, &o.0),
                                    o.1,
                                    o.2,
                                    o.3
                                ),
                            ));
                        }
                        self.a = q; // the old quire is dropped: only the image survived
                    }
                    Err(m) => {
                        return Err(self.fail(Clause::PanicState, step, "from_bits returns".into(), format!("panic: {m}")))
                    }
                }
                self.check_model(step, Clause::BitsRoundtrip)
            }
            Ev::Inject(img) => {
                self.st.hit(Pr::ev_inject);
                self.any_special = true;
                let top = match qt {
                    QT::Q8 => img[7] == 0x8000_0000,
                    QT::Q16 => img[6] == 1 << 63,
                    QT::Q32 => img[0] == 1 << 63,
                };
                if top {
                    self.st.hit(Pr::inject_nar_limb);
                }
                match catch(|| S::from_img(img, 0)) {
                    Ok(q) => self.a = q,
                    Err(m) => {
                        return Err(self.fail(Clause::PanicState, step, "from_bits returns".into(), format!("panic: {m}")))
                    }
                }
                self.r = Wide::from_image(img, qt.w());
                self.poisoned = false;
                if self.r.abs().top_bit().map(|t| t + 2 >= qt.w() - 1).unwrap_or(false) {
                    self.st.hit(Pr::inject_near_range_end);
                }
                self.check_model(step, Clause::BitsRoundtrip)
            }
            Ev::Split2 | Ev::Split3 => {
                let three = matches!(ev, Ev::Split3);
                self.st.hit(if three { Pr::ev_split3 } else { Pr::ev_split2 });
                self.any_special = true;
                let clause = if three { Clause::Split3 } else { Clause::Split2 };
                let img = self.expected_img();
                let p1 = round_exact(qt, &self.r);
                let r1 = self.r.sub(&posit_units(qt, p1.posit).unwrap());
                let p2 = round_exact(qt, &r1);
                let r2 = r1.sub(&posit_units(qt, p2.posit).unwrap());
                let p3 = round_exact(qt, &r2);
                if self.r.is_zero() {
                    self.st.hit(Pr::split_zero);
                }
                if self.r.is_neg() {
                    self.st.hit(Pr::split_neg);
                }
                if p2.posit != 0 {
                    self.st.hit(Pr::split_p2);
                }
                if three && p3.posit != 0 {
                    self.st.hit(Pr::split_p3);
                }
                let strict = (p1.posit, p2.posit, p3.posit);
                if three {
                    match catch(|| S::from_img(&img, 0).split3()) {
                        Ok(o) => {
                            if o != strict {
                                return Err(self.fail(
                                    clause,
                                    step,
                                    format!("into_three_posits = ({:x}, {:x}, {:x}) (sum = {} units)", strict.0, strict.1, strict.2, self.r.hex()),
                                    format!("({:x}, {:x}, {:x})", o.0, o.1, o.2),
                                ));
                            }
                        }
                        Err(m) => return Err(self.fail(Clause::PanicState, step, "into_three_posits returns".into(), format!("panic: {m}"))),
                    }
                } else {
                    match catch(|| S::from_img(&img, 0).split2()) {
                        Ok(o) => {
                            if o != (strict.0, strict.1) {
                                return Err(self.fail(
                                    clause,
                                    step,
                                    format!("into_two_posits = ({:x}, {:x}) (sum = {} units)", strict.0, strict.1, self.r.hex()),
                                    format!("({:x}, {:x})", o.0, o.1),
                                ));
                            }
                        }
                        Err(m) => return Err(self.fail(Clause::PanicState, step, "into_two_posits returns".into(), format!("panic: {m}"))),
                    }
                }
                // the observed quire itself is untouched
                self.check_model(step, Clause::BitImage)
            }
            Ev::MatDot { r, k, c, a, b, la, lb } => {
                self.st.hit(Pr::ev_matdot);
                if *la == 1 || *la == 2 || *lb == 1 || *lb == 2 {
                    self.st.hit(Pr::matdot_view);
                }
                if *la == 3 && *lb == 3 && r == k && k == c && (*r == 2 || *r == 3) {
                    self.st.hit(Pr::matdot_static);
                }
                self.any_special = true;
                let (r, k, c) = (*r, *k, *c);
                if k >= 4 {
                    self.st.hit(Pr::matdot_inner4);
                }
                let out = match catch(|| S::matdot(r, k, c, a, b, *la, *lb)) {
                    Ok(o) => o,
                    Err(m) => return Err(self.fail(Clause::PanicAcc, step, "quire_dot returns".into(), format!("panic: {m}"))),
                };
                for i in 0..r {
                    for j in 0..c {
                        let mut sum = Wide::ZERO;
                        let mut nar = false;
                        for l in 0..k {
                            match product_units(qt, a[i * k + l], b[l * c + j]) {
                                Some(t) => sum = sum.add(&t),
                                None => nar = true,
                            }
                        }
                        let exp = if nar { qt.nar() } else { round_exact(qt, &sum).posit };
                        self.st.hit(Pr::matdot_elems);
                        if nar {
                            self.st.hit(Pr::matdot_nar);
                        }
                        let got = out.get(i * c + j).copied().unwrap_or(u32::MAX);
                        if got != exp {
                            return Err(self.fail(
                                Clause::MatDot,
                                step,
                                format!("quire_dot[{i},{j}] = {:x} (exact dot product = {} units of 2^-{})", exp, sum.hex(), qt.f()),
                                format!("quire_dot[{i},{j}] = {:x}", got),
                            ));
                        }
                    }
                }
                Ok(())
            }
            Ev::Order(k, alt) => {
                self.st.hit(Pr::ev_order);
                self.any_special = true;
                let n = self.evs.len();
                let start_img = self.snaps[n - k].img;
                let nterms: usize = alt.iter().map(|a| a.sp.terms(&a.ops).len()).sum();
                if nterms >= 4 {
                    self.st.hit(Pr::order4);
                }
                if alt.iter().any(|a| a.sp.is_compound()) {
                    self.st.hit(Pr::order_regrouped);
                }
                if alt.iter().any(|a| a.has_nar(qt)) {
                    self.st.hit(Pr::order_poison);
                }
                let b = catch(|| {
                    let mut b = S::from_img(&start_img, 0);
                    for a in alt {
                        b.acc(a.sp, a.sub, &a.ops);
                    }
                    b.img(0)
                });
                match b {
                    Ok(bimg) => {
                        let aimg = self.a.img(0);
                        if bimg != aimg {
                            return Err(self.fail(
                                Clause::Order,
                                step,
                                format!("same terms in another order give to_bits = {}", img_hex(qt, &aimg)),
                                format!("to_bits = {}", img_hex(qt, &bimg)),
                            ));
                        }
                    }
                    Err(m) => return Err(self.fail(Clause::PanicAcc, step, "accumulate returns".into(), format!("panic: {m}"))),
                }
                Ok(())
            }
        }
    }
}

/// Run a complete case through the replay path (no PRNG anywhere below this call).
pub fn run_case(case: &Case, mode: Mode, st: &mut Stats) -> (Outcome, u64) {
    match case.qt {
        QT::Q8 => run_case_t::<softposit::Q8E0>(case, mode, st),
        QT::Q16 => run_case_t::<softposit::Q16E1>(case, mode, st),
        QT::Q32 => run_case_t::<softposit::Q32E2>(case, mode, st),
    }
}

fn run_case_t<S: Sut>(case: &Case, mode: Mode, st: &mut Stats) -> (Outcome, u64) {
    let mut r = match Runner::<S>::new(case.init_via, mode, st) {
        Ok(r) => r,
        Err(f) => return (Outcome::Fail(f), 0),
    };
    for (i, ev) in case.events.iter().enumerate() {
        if let Err(m) = r.valid(ev) {
            return (Outcome::Invalid(i, m), r.digest());
        }
        if let Err(f) = r.apply(ev) {
            return (Outcome::Fail(f), r.digest());
        }
    }
    (Outcome::Ok, r.digest())
}
