//! Replay files: a line-oriented text format holding one minimised history (quire engine)
//! or one word script (rng engine), with the clause that failed and what was observed.

use crate::events::{Case, Ev};
use crate::posit_ref::QT;
use crate::quire::{Clause, Failure};
use crate::rngsim::{Entry, RCase, RClause, RFailure};

/// (the recorded step / expected / observed fields are for the human reader and for the
/// fresh-process comparison done on the printed lines; the replay path recomputes them)
#[allow(dead_code)]
pub enum Replay {
    Quire { property: String, case: Case, clause: Clause, step: usize, expected: String, observed: String },
    Rng { case: RCase, clause: RClause, sample: usize, observed: String },
    /// a failure that does not reproduce in isolation (the code under test keeps hidden state
    /// across operations): replayed as the whole single-threaded run sequence 0..=upto
    Sequence { property: String, seed: u64, upto: u64, tier: String, clause: String, observed: String },
}

pub struct Meta {
    pub seed: u64,
    pub run: u64,
    pub profile: String,
    pub original_events: usize,
}

pub fn write_quire(path: &str, property: &str, meta: &Meta, case: &Case, f: &Failure) -> std::io::Result<()> {
    let mut s = String::new();
    s.push_str("# simcheck replay v1 — minimised quire history; replay with: ./check --replay <this file>\n");
    s.push_str(&format!("property {property}\n"));
    s.push_str("engine quire\n");
    s.push_str(&format!("type {}\n", case.qt.name()));
    s.push_str(&format!("seed {}\n", meta.seed));
    s.push_str(&format!("run {}\n", meta.run));
    s.push_str(&format!("profile {}\n", meta.profile));
    s.push_str(&format!("original_events {}\n", meta.original_events));
    s.push_str(&format!("init_via {}\n", case.init_via));
    s.push_str(&format!("clause {}\n", f.clause.name()));
    s.push_str(&format!("step {}\n", f.step));
    s.push_str(&format!("expected {}\n", f.expected));
    s.push_str(&format!("observed {}\n", f.observed));
    let injected = case.events.iter().any(|e| matches!(e, Ev::Inject(_)));
    s.push_str(&format!("needs_state_injection {}\n", injected));
    s.push_str(&format!("events {}\n", case.events.len()));
    for e in &case.events {
        s.push_str(&e.text());
        s.push('\n');
    }
    std::fs::write(path, s)
}

pub fn write_rng(path: &str, meta: &Meta, case: &RCase, f: &RFailure) -> std::io::Result<()> {
    let mut s = String::new();
    s.push_str("# simcheck replay v1 — minimised RNG word script; replay with: ./check --replay <this file>\n");
    s.push_str("property C19\n");
    s.push_str("engine rng\n");
    s.push_str(&format!("type {}\n", case.qt.pname()));
    s.push_str(&format!("seed {}\n", meta.seed));
    s.push_str(&format!("run {}\n", meta.run));
    s.push_str(&format!("profile {}\n", meta.profile));
    s.push_str(&format!("entry {}\n", case.entry.name()));
    s.push_str(&format!("nsamples {}\n", case.nsamples));
    s.push_str(&format!("clause {}\n", f.clause.name()));
    s.push_str(&format!("sample {}\n", f.sample));
    s.push_str(&format!("observed {}\n", f.observed));
    s.push_str("# words: w = served through next_u32, q = next_u64, f = fill_bytes (8-byte chunk), hex\n");
    s.push_str(&format!("words {}\n", case.words_text()));
    std::fs::write(path, s)
}

pub fn write_sequence(path: &str, property: &str, seed: u64, upto: u64, profile: &str, tier: &str, clause: &str, observed: &str) -> std::io::Result<()> {
    let mut s = String::new();
    s.push_str("# simcheck replay v1 — SEQUENCE replay: the failure does not reproduce from its own history alone\n");
    s.push_str("# (the code under test keeps hidden state across operations), so the replay is the whole\n");
    s.push_str("# single-threaded sequence of simulated runs 0..=upto under this seed, in one fresh process.\n");
    s.push_str(&format!("property {property}\nengine sequence\ntype -\nseed {seed}\nupto {upto}\nprofile {profile}\ntier {tier}\nclause {clause}\nobserved {observed}\n"));
    std::fs::write(path, s)
}

pub fn read(path: &str) -> Result<Replay, String> {
    let text = std::fs::read_to_string(path).map_err(|e| format!("{path}: {e}"))?;
    let mut kv: Vec<(String, String)> = Vec::new();
    let mut lines = text.lines().filter(|l| !l.starts_with('#') && !l.trim().is_empty());
    let mut events: Vec<Ev> = Vec::new();
    while let Some(l) = lines.next() {
        let (k, v) = match l.split_once(' ') {
            Some((k, v)) => (k.to_string(), v.to_string()),
            None => (l.to_string(), String::new()),
        };
        if k == "events" {
            let n: usize = v.trim().parse().map_err(|_| "bad events count")?;
            for _ in 0..n {
                let el = lines.next().ok_or("missing event line")?;
                events.push(Ev::parse(el)?);
            }
            continue;
        }
        kv.push((k, v));
    }
    let get = |k: &str| -> Result<String, String> {
        kv.iter().find(|(a, _)| a == k).map(|(_, v)| v.clone()).ok_or(format!("missing field {k}"))
    };
    let engine = get("engine")?;
    if engine == "sequence" {
        return Ok(Replay::Sequence {
            property: get("property")?,
            seed: get("seed")?.parse().map_err(|_| "bad seed")?,
            upto: get("upto")?.parse().map_err(|_| "bad upto")?,
            tier: get("tier").unwrap_or_else(|_| "quick".into()),
            clause: get("clause")?,
            observed: get("observed")?,
        });
    }
    let qt = QT::parse(&get("type")?).ok_or("bad type")?;
    match engine.as_str() {
        "quire" => {
            let clause = Clause::parse(&get("clause")?).ok_or("bad clause")?;
            Ok(Replay::Quire {
                property: get("property")?,
                case: Case { qt, init_via: get("init_via")?.parse().map_err(|_| "bad init_via")?, events },
                clause,
                step: get("step")?.parse().map_err(|_| "bad step")?,
                expected: get("expected")?,
                observed: get("observed")?,
            })
        }
        "rng" => {
            let clause = RClause::parse(&get("clause")?).ok_or("bad clause")?;
            Ok(Replay::Rng {
                case: RCase {
                    qt,
                    entry: Entry::parse(&get("entry")?).ok_or("bad entry")?,
                    nsamples: get("nsamples")?.parse().map_err(|_| "bad nsamples")?,
                    words: RCase::parse_words(&get("words").unwrap_or_default())?,
                },
                clause,
                sample: get("sample")?.parse().map_err(|_| "bad sample")?,
                observed: get("observed")?,
            })
        }
        x => Err(format!("unknown engine {x}")),
    }
}
