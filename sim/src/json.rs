//! Minimal JSON writer (evidence files).

use std::collections::BTreeMap;

#[derive(Clone, Debug)]
pub enum J {
    N(f64),
    I(i128),
    S(String),
    B(bool),
    A(Vec<J>),
    O(Vec<(String, J)>),
}

pub fn obj(v: Vec<(&str, J)>) -> J {
    J::O(v.into_iter().map(|(k, v)| (k.to_string(), v)).collect())
}

pub fn s(x: &str) -> J {
    J::S(x.to_string())
}

pub fn i<T: Into<i128>>(x: T) -> J {
    J::I(x.into())
}

pub fn map(m: &BTreeMap<String, u64>) -> J {
    J::O(m.iter().map(|(k, v)| (k.clone(), J::I(*v as i128))).collect())
}

fn esc(s: &str, out: &mut String) {
    out.push('"');
    for c in s.chars() {
        match c {
            '"' => out.push_str("\\\""),
            '\\' => out.push_str("\\\\"),
            '\n' => out.push_str("\\n"),
            '\t' => out.push_str("\\t"),
            '\r' => out.push_str("\\r"),
            c if (c as u32) < 0x20 => out.push_str(&format!("\\u{:04x}", c as u32)),
            c => out.push(c),
        }
    }
    out.push('"');
}

impl J {
    pub fn write(&self, out: &mut String, ind: usize) {
        let pad = |n: usize| " ".repeat(n);
        match self {
            J::N(x) => {
                if x.is_finite() {
                    out.push_str(&format!("{:.3}", x));
                } else {
                    out.push_str("0");
                }
            }
            J::I(x) => out.push_str(&x.to_string()),
            J::S(x) => esc(x, out),
            J::B(b) => out.push_str(if *b { "true" } else { "false" }),
            J::A(v) => {
                if v.is_empty() {
                    out.push_str("[]");
                    return;
                }
                out.push_str("[\n");
                for (i, x) in v.iter().enumerate() {
                    out.push_str(&pad(ind + 1));
                    x.write(out, ind + 1);
                    if i + 1 < v.len() {
                        out.push(',');
                    }
                    out.push('\n');
                }
                out.push_str(&pad(ind));
                out.push(']');
            }
            J::O(v) => {
                if v.is_empty() {
                    out.push_str("{}");
                    return;
                }
                out.push_str("{\n");
                for (i, (k, x)) in v.iter().enumerate() {
                    out.push_str(&pad(ind + 1));
                    esc(k, out);
                    out.push_str(": ");
                    x.write(out, ind + 1);
                    if i + 1 < v.len() {
                        out.push(',');
                    }
                    out.push('\n');
                }
                out.push_str(&pad(ind));
                out.push('}');
            }
        }
    }
    pub fn to_string(&self) -> String {
        let mut s = String::new();
        self.write(&mut s, 0);
        s.push('\n');
        s
    }
}
