//! Adapter from the simulator's events to the *real* softposit API. This file is the
//! only place that touches the quires of the crate under test. Everything goes through
//! public API (operators, inherent methods, the `Quire` trait, `From` impls).

use crate::posit_ref::QT;
use softposit::{AssociatedQuire, PxE2, Quire, P16E1, P32E2, P8E0, Q16E1, Q32E2, Q8E0};

/// The spellings the crate offers for accumulating into a quire.
#[derive(Clone, Copy, PartialEq, Eq, Debug, Hash, PartialOrd, Ord)]
pub enum Sp {
    /// `q += (a, b)` / `q -= (a, b)`
    Prod,
    /// `q.add_product(a, b)` / `q.sub_product(a, b)` (inherent)
    ProdM,
    /// `<Q as Quire<P>>::add_product` / `sub_product`
    ProdT,
    /// `q += a` / `q -= a`
    One,
    /// `q += (a, (b, c))`
    T2,
    /// `q += (a, (b, c, d))` (add only)
    T3,
    /// `q += ((a, b), (c, d))`
    Q22,
    /// `q += (a, [b; N])`
    Arr1,
    Arr2,
    Arr3,
    Arr4,
}

impl Sp {
    pub const ALL: [Sp; 11] = [
        Sp::Prod,
        Sp::ProdM,
        Sp::ProdT,
        Sp::One,
        Sp::T2,
        Sp::T3,
        Sp::Q22,
        Sp::Arr1,
        Sp::Arr2,
        Sp::Arr3,
        Sp::Arr4,
    ];
    pub fn arity(self) -> usize {
        match self {
            Sp::Prod | Sp::ProdM | Sp::ProdT => 2,
            Sp::One => 1,
            Sp::T2 => 3,
            Sp::T3 => 4,
            Sp::Q22 => 4,
            Sp::Arr1 => 2,
            Sp::Arr2 => 3,
            Sp::Arr3 => 4,
            Sp::Arr4 => 5,
        }
    }
    pub fn has_sub(self) -> bool {
        !matches!(self, Sp::T3)
    }
    pub fn name(self) -> &'static str {
        match self {
            Sp::Prod => "prod",
            Sp::ProdM => "prodm",
            Sp::ProdT => "prodt",
            Sp::One => "one",
            Sp::T2 => "t2",
            Sp::T3 => "t3",
            Sp::Q22 => "q22",
            Sp::Arr1 => "arr1",
            Sp::Arr2 => "arr2",
            Sp::Arr3 => "arr3",
            Sp::Arr4 => "arr4",
        }
    }
    pub fn parse(s: &str) -> Option<Sp> {
        Sp::ALL.iter().copied().find(|x| x.name() == s)
    }
    pub fn is_compound(self) -> bool {
        !matches!(self, Sp::Prod | Sp::ProdM | Sp::ProdT | Sp::One)
    }
    /// The mathematical terms a spelling stands for, as (a, Some(b)) products or (a, None) singles.
    pub fn terms(self, o: &[u32]) -> Vec<(u32, Option<u32>)> {
        match self {
            Sp::Prod | Sp::ProdM | Sp::ProdT => vec![(o[0], Some(o[1]))],
            Sp::One => vec![(o[0], None)],
            Sp::T2 => vec![(o[0], Some(o[1])), (o[0], Some(o[2]))],
            Sp::T3 => vec![(o[0], Some(o[1])), (o[0], Some(o[2])), (o[0], Some(o[3]))],
            Sp::Q22 => vec![
                (o[0], Some(o[2])),
                (o[0], Some(o[3])),
                (o[1], Some(o[2])),
                (o[1], Some(o[3])),
            ],
            Sp::Arr1 | Sp::Arr2 | Sp::Arr3 | Sp::Arr4 => {
                o[1..].iter().map(|&b| (o[0], Some(b))).collect()
            }
        }
    }
}

pub type Img = [u64; 8];

pub trait Sut: Sized {
    const QT: QT;
    /// via: 0 inherent `init()`, 1 `Quire::init()`, 2 `<P as AssociatedQuire<P>>::Q::init()`, 3 `Q::ZERO`
    fn init(via: u8) -> Self;
    /// via: 0 inherent, 1 trait
    fn from_img(img: &Img, via: u8) -> Self;
    fn img(&self, via: u8) -> Img;
    fn is_zero(&self, via: u8) -> bool;
    fn is_nar(&self, via: u8) -> bool;
    /// via: 0 inherent `to_posit`, 1 `Quire::to_posit`, 2 `P::from(&q)`
    fn to_posit(&self, via: u8) -> u32;
    /// `P::from(q)` (consumes)
    fn into_posit(self) -> u32;
    /// via: 0 `Q::from_posit`, 1 `Q::from(p)`, 2 `Quire::from_posit`
    fn load(p: u32, via: u8) -> Self;
    fn clear(&mut self, via: u8);
    fn neg(&mut self, via: u8);
    fn acc(&mut self, sp: Sp, sub: bool, o: &[u32]);
    fn split2(self) -> (u32, u32);
    fn split3(self) -> (u32, u32, u32);
    /// the matrix-product client built on the quire: `a.quire_dot(&b)` for an r×k by k×c product
    /// (row-major operands, row-major result)
    /// `la`/`lb` choose the storage of each operand: 0 owned dynamic matrix, 1 view into a larger
    /// parent (offset 1,2), 2 strided view (every other row and column of a parent), 3 statically
    /// sized matrices when the shape is 2x2·2x2 or 3x3·3x3 (both operands), else owned
    fn matdot(r: usize, k: usize, c: usize, a: &[u32], b: &[u32], la: u8, lb: u8) -> Vec<u32>;
}

fn img8(v: u32) -> Img {
    [0, 0, 0, 0, 0, 0, 0, v as u64]
}
fn unimg8(i: &Img) -> u32 {
    i[7] as u32
}
fn img16(v: u128) -> Img {
    [0, 0, 0, 0, 0, 0, (v >> 64) as u64, v as u64]
}
fn unimg16(i: &Img) -> u128 {
    ((i[6] as u128) << 64) | i[7] as u128
}
fn img32(v: [u64; 8]) -> Img {
    v
}
fn unimg32(i: &Img) -> [u64; 8] {
    *i
}

/// Generic-width operand spellings of the Q32E2 quire (`quire_add_sub_x!`, `quire_add_sub_array_x!`,
/// `impl Quire<PxE2<N>> for Q32E2`, `impl From<PxE2<N>> for Q32E2`): a `PxE2<N>` value is the
/// P32E2 value with the same left-aligned bit pattern, so accumulating it must change the quire
/// exactly as the P32E2 spelling does and the reference model needs no second decode. Whether an
/// event goes through these spellings, and at which width, is a pure function of its operand
/// patterns (so events, replay files and the minimiser are unchanged): odd parity of the xor of
/// the operands selects the generic path, and N is the narrowest width in 2..=32 whose unused low
/// bits are zero in every operand. Rounding the quire to an N-bit posit belongs to C14 and is not
/// observed here.
pub fn px_width(qt: QT, o: &[u32]) -> Option<u32> {
    if qt != QT::Q32 || o.is_empty() {
        return None;
    }
    let x = o.iter().fold(0u32, |a, &b| a ^ b);
    if x.count_ones() & 1 == 0 {
        return None;
    }
    let or = o.iter().fold(0u32, |a, &b| a | b);
    Some((32 - or.trailing_zeros().min(32)).clamp(2, 32))
}

fn px_acc_n<const N: u32>(q: &mut Q32E2, sp: Sp, sub: bool, o: &[u32]) {
    let p = |i: usize| PxE2::<N>::from_bits(o[i]);
    match (sp, sub) {
        (Sp::Prod, false) => *q += (p(0), p(1)),
        (Sp::Prod, true) => *q -= (p(0), p(1)),
        // there is no inherent generic-width add_product; both go through the trait
        (Sp::ProdM, false) | (Sp::ProdT, false) => <Q32E2 as Quire<PxE2<N>>>::add_product(q, p(0), p(1)),
        (Sp::ProdM, true) | (Sp::ProdT, true) => <Q32E2 as Quire<PxE2<N>>>::sub_product(q, p(0), p(1)),
        (Sp::One, false) => *q += p(0),
        (Sp::One, true) => *q -= p(0),
        (Sp::T2, false) => *q += (p(0), (p(1), p(2))),
        (Sp::T2, true) => *q -= (p(0), (p(1), p(2))),
        (Sp::T3, false) => *q += (p(0), (p(1), p(2), p(3))),
        (Sp::T3, true) => panic!("harness: no `-=` spelling for (a,(b,c,d))"),
        (Sp::Q22, false) => *q += ((p(0), p(1)), (p(2), p(3))),
        (Sp::Q22, true) => *q -= ((p(0), p(1)), (p(2), p(3))),
        (Sp::Arr1, false) => *q += (p(0), [p(1)]),
        (Sp::Arr1, true) => *q -= (p(0), [p(1)]),
        (Sp::Arr2, false) => *q += (p(0), [p(1), p(2)]),
        (Sp::Arr2, true) => *q -= (p(0), [p(1), p(2)]),
        (Sp::Arr3, false) => *q += (p(0), [p(1), p(2), p(3)]),
        (Sp::Arr3, true) => *q -= (p(0), [p(1), p(2), p(3)]),
        (Sp::Arr4, false) => *q += (p(0), [p(1), p(2), p(3), p(4)]),
        (Sp::Arr4, true) => *q -= (p(0), [p(1), p(2), p(3), p(4)]),
    }
}

fn px_load_n<const N: u32>(p: u32, via: u8) -> Q32E2 {
    let p = PxE2::<N>::from_bits(p);
    match via {
        1 => Q32E2::from(p),
        _ => <Q32E2 as Quire<PxE2<N>>>::from_posit(p),
    }
}

macro_rules! px_dispatch {
    ($n:expr, $f:ident, $args:tt, $($w:literal)*) => {
        match $n { $($w => $f::<$w> $args,)* _ => unreachable!("harness: generic width out of 2..=32") }
    };
}

fn px_acc32(q: &mut Q32E2, sp: Sp, sub: bool, o: &[u32]) -> bool {
    match px_width(QT::Q32, &o[..sp.arity()]) {
        None => false,
        Some(n) => {
            px_dispatch!(n, px_acc_n, (q, sp, sub, o),
                2 3 4 5 6 7 8 9 10 11 12 13 14 15 16 17 18 19 20 21 22 23 24 25 26 27 28 29 30 31 32);
            true
        }
    }
}
fn px_load32(p: u32, via: u8) -> Option<Q32E2> {
    px_width(QT::Q32, &[p]).map(|n| {
        px_dispatch!(n, px_load_n, (p, via),
            2 3 4 5 6 7 8 9 10 11 12 13 14 15 16 17 18 19 20 21 22 23 24 25 26 27 28 29 30 31 32)
    })
}
fn px_acc_none<Q>(_q: &mut Q, _sp: Sp, _sub: bool, _o: &[u32]) -> bool {
    false
}
fn px_load_none<Q>(_p: u32, _via: u8) -> Option<Q> {
    None
}

/// The forwarding half of `impl Quire<PxE2<N>> for Q32E2` (from_bits, to_bits, is_zero, is_nar,
/// clear, neg): on Q32E2 the "through the trait" selector (`via` 1) goes through this facade instead
/// of `Quire<P32E2>` when the image at hand has odd parity in its lowest limb — a pure function of
/// the state, so nothing in the event stream changes. The width is irrelevant to these methods;
/// four widths are instantiated.
pub trait PxFacade: Sized {
    fn px_from_img(_img: &Img) -> Option<Self> {
        None
    }
    fn px_img(&self) -> Option<Img> {
        None
    }
    fn px_is_zero(&self) -> Option<bool> {
        None
    }
    fn px_is_nar(&self) -> Option<bool> {
        None
    }
    fn px_clear(&mut self) -> bool {
        false
    }
    fn px_neg(&mut self) -> bool {
        false
    }
}
impl PxFacade for Q8E0 {}
impl PxFacade for Q16E1 {}
fn px_facade_width(img: &Img) -> Option<u32> {
    let c = img[7].count_ones() + img[0].count_ones();
    if c & 1 == 1 {
        Some([2, 9, 17, 32][((c >> 1) & 3) as usize])
    } else {
        None
    }
}
macro_rules! px_facade {
    ($w:expr, |$T:ident| $body:expr) => {
        match $w {
            2 => { type $T = PxE2<2>; $body }
            9 => { type $T = PxE2<9>; $body }
            17 => { type $T = PxE2<17>; $body }
            _ => { type $T = PxE2<32>; $body }
        }
    };
}
impl PxFacade for Q32E2 {
    fn px_from_img(img: &Img) -> Option<Self> {
        px_facade_width(img).map(|w| px_facade!(w, |T| <Q32E2 as Quire<T>>::from_bits(*img)))
    }
    fn px_img(&self) -> Option<Img> {
        px_facade_width(&Q32E2::to_bits(self)).map(|w| px_facade!(w, |T| <Q32E2 as Quire<T>>::to_bits(self)))
    }
    fn px_is_zero(&self) -> Option<bool> {
        px_facade_width(&Q32E2::to_bits(self)).map(|w| px_facade!(w, |T| <Q32E2 as Quire<T>>::is_zero(self)))
    }
    fn px_is_nar(&self) -> Option<bool> {
        px_facade_width(&Q32E2::to_bits(self)).map(|w| px_facade!(w, |T| <Q32E2 as Quire<T>>::is_nar(self)))
    }
    fn px_clear(&mut self) -> bool {
        match px_facade_width(&Q32E2::to_bits(self)) {
            Some(w) => {
                px_facade!(w, |T| <Q32E2 as Quire<T>>::clear(self));
                true
            }
            None => false,
        }
    }
    fn px_neg(&mut self) -> bool {
        match px_facade_width(&Q32E2::to_bits(self)) {
            Some(w) => {
                px_facade!(w, |T| <Q32E2 as Quire<T>>::neg(self));
                true
            }
            None => false,
        }
    }
}

macro_rules! impl_sut {
    ($Q:ty, $P:ty, $U:ty, $qt:expr, $toimg:ident, $fromimg:ident, $pxacc:ident, $pxload:ident) => {
        impl Sut for $Q {
            const QT: QT = $qt;

            fn init(via: u8) -> Self {
                match via {
                    0 => <$Q>::init(),
                    1 => <$Q as Quire<$P>>::init(),
                    2 => <<$P as AssociatedQuire<$P>>::Q as Quire<$P>>::init(),
                    _ => <$Q>::ZERO,
                }
            }
            fn from_img(img: &Img, via: u8) -> Self {
                match via {
                    0 => <$Q>::from_bits($fromimg(img)),
                    _ => match <$Q as PxFacade>::px_from_img(img) {
                        Some(q) => q,
                        None => <$Q as Quire<$P>>::from_bits($fromimg(img)),
                    },
                }
            }
            fn img(&self, via: u8) -> Img {
                match via {
                    0 => $toimg(<$Q>::to_bits(self)),
                    _ => match PxFacade::px_img(self) {
                        Some(i) => i,
                        None => $toimg(<$Q as Quire<$P>>::to_bits(self)),
                    },
                }
            }
            fn is_zero(&self, via: u8) -> bool {
                match via {
                    0 => <$Q>::is_zero(self),
                    _ => match PxFacade::px_is_zero(self) {
                        Some(z) => z,
                        None => <$Q as Quire<$P>>::is_zero(self),
                    },
                }
            }
            fn is_nar(&self, via: u8) -> bool {
                match via {
                    0 => <$Q>::is_nar(self),
                    _ => match PxFacade::px_is_nar(self) {
                        Some(z) => z,
                        None => <$Q as Quire<$P>>::is_nar(self),
                    },
                }
            }
            fn to_posit(&self, via: u8) -> u32 {
                let p: $P = match via {
                    0 => <$Q>::to_posit(self),
                    1 => <$Q as Quire<$P>>::to_posit(self),
                    _ => <$P>::from(self),
                };
                p.to_bits() as u32
            }
            fn into_posit(self) -> u32 {
                <$P>::from(self).to_bits() as u32
            }
            fn load(p: u32, via: u8) -> Self {
                if let Some(q) = $pxload(p, via) {
                    return q;
                }
                let p = <$P>::from_bits(p as $U);
                match via {
                    0 => <$Q>::from_posit(p),
                    1 => <$Q>::from(p),
                    _ => <$Q as Quire<$P>>::from_posit(p),
                }
            }
            fn clear(&mut self, via: u8) {
                match via {
                    0 => <$Q>::clear(self),
                    _ => {
                        if !PxFacade::px_clear(self) {
                            <$Q as Quire<$P>>::clear(self)
                        }
                    }
                }
            }
            fn neg(&mut self, via: u8) {
                match via {
                    0 => <$Q>::neg(self),
                    _ => {
                        if !PxFacade::px_neg(self) {
                            <$Q as Quire<$P>>::neg(self)
                        }
                    }
                }
            }
            fn acc(&mut self, sp: Sp, sub: bool, o: &[u32]) {
                if $pxacc(self, sp, sub, o) {
                    return;
                }
                let p = |i: usize| <$P>::from_bits(o[i] as $U);
                match (sp, sub) {
                    (Sp::Prod, false) => *self += (p(0), p(1)),
                    (Sp::Prod, true) => *self -= (p(0), p(1)),
                    (Sp::ProdM, false) => <$Q>::add_product(self, p(0), p(1)),
                    (Sp::ProdM, true) => <$Q>::sub_product(self, p(0), p(1)),
                    (Sp::ProdT, false) => <$Q as Quire<$P>>::add_product(self, p(0), p(1)),
                    (Sp::ProdT, true) => <$Q as Quire<$P>>::sub_product(self, p(0), p(1)),
                    (Sp::One, false) => *self += p(0),
                    (Sp::One, true) => *self -= p(0),
                    (Sp::T2, false) => *self += (p(0), (p(1), p(2))),
                    (Sp::T2, true) => *self -= (p(0), (p(1), p(2))),
                    (Sp::T3, false) => *self += (p(0), (p(1), p(2), p(3))),
                    (Sp::T3, true) => panic!("harness: no `-=` spelling for (a,(b,c,d))"),
                    (Sp::Q22, false) => *self += ((p(0), p(1)), (p(2), p(3))),
                    (Sp::Q22, true) => *self -= ((p(0), p(1)), (p(2), p(3))),
                    (Sp::Arr1, false) => *self += (p(0), [p(1)]),
                    (Sp::Arr1, true) => *self -= (p(0), [p(1)]),
                    (Sp::Arr2, false) => *self += (p(0), [p(1), p(2)]),
                    (Sp::Arr2, true) => *self -= (p(0), [p(1), p(2)]),
                    (Sp::Arr3, false) => *self += (p(0), [p(1), p(2), p(3)]),
                    (Sp::Arr3, true) => *self -= (p(0), [p(1), p(2), p(3)]),
                    (Sp::Arr4, false) => *self += (p(0), [p(1), p(2), p(3), p(4)]),
                    (Sp::Arr4, true) => *self -= (p(0), [p(1), p(2), p(3), p(4)]),
                }
            }
            fn split2(self) -> (u32, u32) {
                let (a, b) = <$Q>::into_two_posits(self);
                (a.to_bits() as u32, b.to_bits() as u32)
            }
            fn split3(self) -> (u32, u32, u32) {
                let (a, b, c) = <$Q>::into_three_posits(self);
                (a.to_bits() as u32, b.to_bits() as u32, c.to_bits() as u32)
            }
            #[cfg(not(feature = "linalg"))]
            fn matdot(_r: usize, _k: usize, _c: usize, _a: &[u32], _b: &[u32], _la: u8, _lb: u8) -> Vec<u32> {
                unreachable!("harness: built without the linalg client")
            }
            #[cfg(feature = "linalg")]
            fn matdot(r: usize, k: usize, c: usize, a: &[u32], b: &[u32], la: u8, lb: u8) -> Vec<u32> {
                use nalgebra::{DMatrix, SMatrix};
                use softposit::QuireDot;
                let av: Vec<$P> = a.iter().map(|&x| <$P>::from_bits(x as $U)).collect();
                let bv: Vec<$P> = b.iter().map(|&x| <$P>::from_bits(x as $U)).collect();
                let mut v = Vec::with_capacity(r * c);
                if la == 3 && lb == 3 && r == k && k == c && (r == 2 || r == 3) {
                    if r == 2 {
                        let ma = SMatrix::<$P, 2, 2>::from_row_slice(&av);
                        let mb = SMatrix::<$P, 2, 2>::from_row_slice(&bv);
                        let out = ma.quire_dot(&mb);
                        for i in 0..2 {
                            for j in 0..2 {
                                v.push(out[(i, j)].to_bits() as u32);
                            }
                        }
                    } else {
                        let ma = SMatrix::<$P, 3, 3>::from_row_slice(&av);
                        let mb = SMatrix::<$P, 3, 3>::from_row_slice(&bv);
                        let out = ma.quire_dot(&mb);
                        for i in 0..3 {
                            for j in 0..3 {
                                v.push(out[(i, j)].to_bits() as u32);
                            }
                        }
                    }
                    return v;
                }
                // everything outside a view is NaR: an implementation that reads outside it is poisoned
                let junk = <$P>::from_bits(1 << (<$P>::BITS - 1));
                let oa = DMatrix::<$P>::from_row_slice(r, k, &av);
                let ob = DMatrix::<$P>::from_row_slice(k, c, &bv);
                let mut pa = DMatrix::<$P>::from_element(2 * r + 3, 2 * k + 4, junk);
                let mut pb = DMatrix::<$P>::from_element(2 * k + 3, 2 * c + 4, junk);
                let place = |parent: &mut DMatrix<$P>, src: &DMatrix<$P>, l: u8| {
                    for i in 0..src.nrows() {
                        for j in 0..src.ncols() {
                            match l {
                                1 => parent[(1 + i, 2 + j)] = src[(i, j)],
                                _ => parent[(2 * i, 2 * j)] = src[(i, j)],
                            }
                        }
                    }
                };
                place(&mut pa, &oa, la);
                place(&mut pb, &ob, lb);
                macro_rules! rhs {
                    ($lhs:expr) => {
                        match lb {
                            1 => $lhs.quire_dot(&pb.slice((1, 2), (k, c))),
                            2 => $lhs.quire_dot(&pb.slice_with_steps((0, 0), (k, c), (1, 1))),
                            _ => $lhs.quire_dot(&ob),
                        }
                    };
                }
                let out = match la {
                    1 => rhs!(pa.slice((1, 2), (r, k))),
                    2 => rhs!(pa.slice_with_steps((0, 0), (r, k), (1, 1))),
                    _ => rhs!(oa),
                };
                for i in 0..r {
                    for j in 0..c {
                        v.push(out[(i, j)].to_bits() as u32);
                    }
                }
                v
            }
        }
    };
}

impl_sut!(Q8E0, P8E0, u8, QT::Q8, img8, unimg8, px_acc_none, px_load_none);
impl_sut!(Q16E1, P16E1, u16, QT::Q16, img16, unimg16, px_acc_none, px_load_none);
impl_sut!(Q32E2, P32E2, u32, QT::Q32, img32, unimg32, px_acc32, px_load32);
