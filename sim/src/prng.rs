//! The one PRNG of the simulator. Implemented here (not taken from the `rand`
//! crate, whose algorithms are part of the system under test for C19).
//! Every decision of a run — configuration, operations, operands, faults,
//! permutations — is drawn from one `Prng` seeded from (VERIF_SEED, stream, run).

#[derive(Clone, Debug)]
pub struct Prng {
    s: [u64; 4],
}

pub fn splitmix64(x: &mut u64) -> u64 {
    *x = x.wrapping_add(0x9E37_79B9_7F4A_7C15);
    let mut z = *x;
    z = (z ^ (z >> 30)).wrapping_mul(0xBF58_476D_1CE4_E5B9);
    z = (z ^ (z >> 27)).wrapping_mul(0x94D0_49BB_1331_11EB);
    z ^ (z >> 31)
}

impl Prng {
    /// Seed for run `run` of stream `stream` (a small constant per engine) under `seed`.
    pub fn for_run(seed: u64, stream: u64, run: u64) -> Self {
        let mut x = seed ^ stream.wrapping_mul(0xD1B5_4A32_D192_ED03);
        let _ = splitmix64(&mut x);
        x ^= run.wrapping_mul(0xA076_1D64_78BD_642F);
        let mut s = [0u64; 4];
        for v in s.iter_mut() {
            *v = splitmix64(&mut x);
        }
        if s == [0; 4] {
            s[0] = 1;
        }
        Prng { s }
    }

    /// xoshiro256**
    #[inline]
    pub fn next(&mut self) -> u64 {
        let r = self.s[1].wrapping_mul(5).rotate_left(7).wrapping_mul(9);
        let t = self.s[1] << 17;
        self.s[2] ^= self.s[0];
        self.s[3] ^= self.s[1];
        self.s[1] ^= self.s[2];
        self.s[0] ^= self.s[3];
        self.s[2] ^= t;
        self.s[3] = self.s[3].rotate_left(45);
        r
    }

    /// uniform in 0..n (n > 0); modulo bias is irrelevant for a search heuristic
    #[inline]
    pub fn below(&mut self, n: u64) -> u64 {
        debug_assert!(n > 0);
        ((self.next() as u128 * n as u128) >> 64) as u64
    }

    #[inline]
    pub fn range(&mut self, lo: u64, hi_incl: u64) -> u64 {
        lo + self.below(hi_incl - lo + 1)
    }

    /// true with probability num/den
    #[inline]
    pub fn chance(&mut self, num: u64, den: u64) -> bool {
        self.below(den) < num
    }

    /// index chosen by integer weights (at least one weight must be non-zero)
    pub fn weighted(&mut self, w: &[u32]) -> usize {
        let total: u64 = w.iter().map(|&x| x as u64).sum();
        debug_assert!(total > 0);
        let mut r = self.below(total);
        for (i, &x) in w.iter().enumerate() {
            if r < x as u64 {
                return i;
            }
            r -= x as u64;
        }
        w.len() - 1
    }

    /// geometric-ish length in lo..=hi with the given continuation odds (num/den)
    pub fn geometric(&mut self, lo: u64, hi: u64, num: u64, den: u64) -> u64 {
        let mut v = lo;
        while v < hi && self.chance(num, den) {
            v += 1;
        }
        v
    }

    pub fn shuffle<T>(&mut self, v: &mut [T]) {
        for i in (1..v.len()).rev() {
            let j = self.below(i as u64 + 1) as usize;
            v.swap(i, j);
        }
    }
}

/// FNV-1a, used for digests of event lists / observations (never for decisions).
#[derive(Clone, Copy)]
pub struct Fnv(pub u64);
impl Fnv {
    pub fn new() -> Self {
        Fnv(0xcbf2_9ce4_8422_2325)
    }
    #[inline]
    pub fn u64(&mut self, v: u64) {
        for b in v.to_le_bytes() {
            self.0 ^= b as u64;
            self.0 = self.0.wrapping_mul(0x0000_0100_0000_01B3);
        }
    }
    #[inline]
    pub fn bytes(&mut self, v: &[u8]) {
        for &b in v {
            self.0 ^= b as u64;
            self.0 = self.0.wrapping_mul(0x0000_0100_0000_01B3);
        }
    }
}
