//! Counters, reach probes and distinct-state measures. Never consulted for decisions.

use std::collections::{BTreeMap, HashSet};

macro_rules! probes {
    ($($id:ident => $name:expr),* $(,)?) => {
        #[allow(non_camel_case_types, dead_code)]
        #[derive(Clone, Copy)]
        #[repr(usize)]
        pub enum Pr { $($id),*, _COUNT }
        pub const PROBE_NAMES: &[&str] = &[$($name),*];
    };
}

probes! {
    // ---- quire engine: events fired
    ev_acc => "ev_fired.acc",
    ev_clear => "ev_fired.clear",
    ev_neg => "ev_fired.neg",
    ev_load => "ev_fired.load",
    ev_restart => "ev_fired.restart_from_image",
    ev_inject => "ev_fired.state_injection",
    ev_split2 => "ev_fired.split2",
    ev_split3 => "ev_fired.split3",
    ev_order => "ev_fired.reorder_replica",
    ev_matdot => "ev_fired.matrix_quire_dot",
    ev_poison => "ev_fired.nar_poison",
    ev_cancel_prev => "ev_fired.cancel_previous_term",
    ev_boundary => "ev_fired.rounding_boundary_seeking_accumulate",
    cfg_poison => "ev_enabled_runs.nar_poison",
    cfg_restart => "ev_enabled_runs.restart_from_image",
    cfg_inject => "ev_enabled_runs.state_injection",
    cfg_order => "ev_enabled_runs.reorder_replica",
    cfg_clear => "ev_enabled_runs.clear",
    cfg_c12 => "ev_enabled_runs.c12_state_ops",
    // ---- per type
    runs_q8 => "runs.Q8E0",
    runs_q16 => "runs.Q16E1",
    runs_q32 => "runs.Q32E2",
    // ---- spellings
    sp_prod => "spelling.prod",
    sp_prodm => "spelling.add_product",
    sp_prodt => "spelling.trait_add_product",
    sp_one => "spelling.single",
    sp_t2 => "spelling.tuple2",
    sp_t3 => "spelling.tuple3",
    sp_q22 => "spelling.pair_pair",
    sp_arr => "spelling.array",
    sp_sub => "spelling.sub_assign",
    sp_px => "spelling.generic_width_PxE2_operands_into_Q32E2",
    sp_px_narrow => "spelling.generic_width_PxE2_N_le_16",
    // ---- reach probes computed from the reference state
    terms_effective => "probe.effective_terms",
    neg_sum => "probe.negative_sum",
    sign_change => "probe.sign_change",
    carry1 => "probe.q32_carry_or_borrow_across_1+_limbs",
    carry3 => "probe.q32_carry_or_borrow_across_3+_limbs",
    carry_q16 => "probe.q16_carry_or_borrow_across_bit64",
    only_limb7 => "probe.q32_sum_only_in_limb7",
    only_limb6 => "probe.q32_sum_only_in_limb6",
    only_limb5 => "probe.q32_sum_only_in_limb5",
    q16_low_only => "probe.q16_sum_only_in_low_half",
    cancel64 => "probe.cancellation_lowers_leading_bit_by_64+",
    cancel_zero => "probe.exact_cancellation_to_zero",
    rnd_sat_max => "probe.round_saturates_maxpos",
    rnd_sat_min => "probe.round_saturates_minpos",
    rnd_tie => "probe.round_tie",
    rnd_cut => "probe.round_exponent_bits_cut_off",
    rnd_cut_differs => "probe.round_cut_zone_rule_vs_value_differ",
    rnd_deep_sticky => "probe.round_sticky_only_from_lower_limb",
    poison_nonzero => "probe.poison_while_nonzero",
    poison_zero_partner => "probe.poison_with_zero_partner",
    poison_in_compound => "probe.poison_inside_compound_spelling",
    acc_after_poison => "probe.accumulate_after_poison",
    clear_poisoned => "probe.clear_of_poisoned_quire",
    order4 => "probe.reorder_with_4+_terms",
    order_regrouped => "probe.reorder_regrouped_spelling",
    order_poison => "probe.reorder_segment_with_poison",
    restart_mid => "probe.restart_mid_segment",
    restart_poisoned => "probe.restart_of_poisoned_quire",
    inject_nar_limb => "probe.inject_top_limb_is_nar_limb",
    inject_near_range_end => "probe.inject_near_range_end",
    matdot_elems => "probe.matrix_elements_checked",
    matdot_nar => "probe.matrix_element_nar",
    matdot_inner4 => "probe.matrix_inner_dimension_4+",
    matdot_view => "probe.matrix_operand_is_strided_or_offset_view",
    matdot_static => "probe.matrix_statically_sized",
    // ---- C12 probes
    neg_multi_limb => "probe.neg_of_state_with_2+_nonzero_limbs",
    neg_low_zero => "probe.neg_of_state_with_zero_low_limbs",
    neg_twice => "probe.neg_applied_twice",
    neg_then_acc => "probe.neg_followed_by_accumulate",
    neg_of_zero => "probe.neg_of_zero",
    neg_of_nar => "probe.neg_of_nar_quire_stays_nar",
    load_minpos => "probe.load_pm_minpos",
    load_maxpos => "probe.load_pm_maxpos",
    load_nar => "probe.load_nar",
    load_zero => "probe.load_zero",
    load_px => "probe.load_through_generic_width_PxE2",
    split_p2 => "probe.split_p2_nonzero",
    split_p3 => "probe.split_p3_nonzero",
    split_neg => "probe.split_of_negative_sum",
    split_zero => "probe.split_of_zero",
    // ---- attribution
    ended_by_c04 => "runs.ended_by_C04_clause",
    ended_by_c12 => "runs.ended_by_C12_clause",
    c04_observer_in_c12 => "runs.c04_observer_clause_seen_and_passed_over_in_C12_run",
    regen => "gen.candidates_redrawn_for_range_precondition",
    strat_q8 => "gen.stratified_first_event_P8E0_operand_pairs_of_65536",
    strat_q16 => "gen.stratified_first_event_P16E1_patterns_of_65536",
    strat_q32 => "gen.stratified_first_event_P32E2_class_pairs_visited_of_230400_per_cycle",
    gen_fallback => "gen.no_valid_candidate_fallback",
    // ---- RNG engine
    rng_samples => "rng.samples",
    rng_words => "rng.words_served",
    rng_runs_p8 => "runs.P8E0",
    rng_runs_p16 => "runs.P16E1",
    rng_runs_p32 => "runs.P32E2",
    rng_mode_uniform => "rng_mode_runs.uniform",
    rng_mode_stuck => "rng_mode_runs.stuck_burst",
    rng_mode_edge_hi => "rng_mode_runs.edge_high",
    rng_mode_edge_lo => "rng_mode_runs.edge_low",
    rng_mode_lowent => "rng_mode_runs.low_entropy",
    rng_mode_counter => "rng_mode_runs.counter",
    rng_mode_bitwalk => "rng_mode_runs.bit_walk",
    rng_mode_zero => "rng_mode_runs.zero_forever",
    rng_mode_sweep => "rng_mode_runs.stratified_counter_sweep",
    rng_skew => "rng_mode_runs.width_skew",
    rng_burst_fired => "rng_fault_fired.stuck_burst",
    rng_long_burst => "rng_fault_fired.long_stuck_burst_2^10..2^17",
    rng_edge_fired => "rng_fault_fired.edge_word",
    rng_lowent_fired => "rng_fault_fired.low_entropy_word",
    rng_counter_wrap => "rng_fault_fired.counter_wrap_2^32",
    rng_via_u32 => "rng.served_via_next_u32",
    rng_via_u64 => "rng.served_via_next_u64",
    rng_via_fill => "rng.served_via_fill_bytes",
    rng_entry_gen => "rng_entry.rng_gen",
    rng_entry_sample => "rng_entry.standard_sample",
    rng_entry_iter => "rng_entry.sample_iter",
    rng_entry_dyn => "rng_entry.dyn_rngcore",
    rng_entry_multi => "rng_entry.array_or_tuple",
    rng_entry_zst => "rng_entry.zero_sized_generator_type",
    rng_reject1 => "probe.rejection_loop_1+",
    rng_reject4 => "probe.rejection_loop_4+",
    rng_out_zero => "probe.sample_is_zero",
    rng_out_min => "probe.sample_smallest_nonzero_reached",
    rng_out_max => "probe.sample_largest_pattern_below_one",
    rng_p16_top16 => "probe.p16_top16_of_18bit_range",
    rng_p16_early => "probe.p16_sub_one_early_return",
    rng_p32_s_lo => "probe.p32_first_draw_lowest",
    rng_p32_s_hi => "probe.p32_first_draw_highest",
    rng_p32_s2_0 => "probe.p32_s2_is_0",
    rng_p32_s2_1 => "probe.p32_s2_is_1",
    rng_p32_s2_2 => "probe.p32_s2_is_2",
    rng_p32_s2_3 => "probe.p32_s2_is_3",
    rng_burst_first => "probe.burst_during_first_draw_of_sample",
    rng_burst_second => "probe.burst_during_later_draw_of_sample",
}

#[derive(Clone)]
pub struct Stats {
    pub c: Vec<u64>,
    pub steps: u64,
    pub runs: u64,
    pub abs_states: HashSet<u32>,
    pub transitions: HashSet<u64>,
    /// distinct (type, sign/regime/exponent of both factors, +=/-=) classes of accumulated products
    pub prod_classes: HashSet<u32>,
    /// hashes of distinct histories that satisfy the non-triviality rule
    pub nontrivial: HashSet<u64>,
    pub nontrivial_runs: u64,
    /// distinct sample outcomes per posit type (rng engine)
    pub outcomes: [HashSet<u32>; 3],
    pub samples: Vec<String>,
    pub digest: u64,
}

impl Stats {
    pub fn new() -> Self {
        Stats {
            c: vec![0; Pr::_COUNT as usize],
            steps: 0,
            runs: 0,
            abs_states: HashSet::new(),
            transitions: HashSet::new(),
            prod_classes: HashSet::new(),
            nontrivial: HashSet::new(),
            nontrivial_runs: 0,
            outcomes: [HashSet::new(), HashSet::new(), HashSet::new()],
            samples: Vec::new(),
            digest: 0,
        }
    }
    #[inline]
    pub fn hit(&mut self, p: Pr) {
        self.c[p as usize] += 1;
    }
    #[inline]
    pub fn add(&mut self, p: Pr, n: u64) {
        self.c[p as usize] += n;
    }
    /// merge `o` (a later chunk of run indices) into self; order of merging is by run index
    pub fn merge(&mut self, o: Stats) {
        for (a, b) in self.c.iter_mut().zip(o.c.iter()) {
            *a += *b;
        }
        self.steps += o.steps;
        self.runs += o.runs;
        self.nontrivial_runs += o.nontrivial_runs;
        self.abs_states.extend(o.abs_states);
        self.transitions.extend(o.transitions);
        self.prod_classes.extend(o.prod_classes);
        self.nontrivial.extend(o.nontrivial);
        for i in 0..3 {
            let s = std::mem::take(&mut self.outcomes[i]);
            let mut s = s;
            s.extend(o.outcomes[i].iter().copied());
            self.outcomes[i] = s;
        }
        for s in o.samples {
            if self.samples.len() < 6 {
                self.samples.push(s);
            }
        }
        // order-dependent combination on purpose: merging is done in run-index order
        self.digest = self.digest.rotate_left(7) ^ o.digest.wrapping_mul(0x9E37_79B9_7F4A_7C15);
    }
    pub fn named(&self, prefix: &str) -> BTreeMap<String, u64> {
        self.named_range(prefix, 0, PROBE_NAMES.len())
    }
    pub fn named_range(&self, prefix: &str, lo: usize, hi: usize) -> BTreeMap<String, u64> {
        let mut m = BTreeMap::new();
        for (i, n) in PROBE_NAMES.iter().enumerate() {
            if i < lo || i >= hi {
                continue;
            }
            if let Some(rest) = n.strip_prefix(prefix) {
                m.insert(rest.to_string(), self.c[i]);
            }
        }
        m
    }
}
