//! simcheck — deterministic simulation harness for softposit-rs (properties C04, C12, C19).
//!
//!   simcheck run <C04|C12|C19> --tier quick|thorough [--runs N] [--seed S] [--workers W]
//!                [--evidence FILE] [--replays DIR] [--known FILE] [--profile NAME]
//!                [--fast-bin PATH] [--digest-only]
//!   simcheck replay <file>
//!
//! Exit codes: 0 held on everything explored; 1 violation (a `VIOLATION property=… replay=…`
//! line is printed); 2 harness error.

mod events;
mod gen;
mod json;
mod minimise;
mod posit_ref;
mod prng;
mod quire;
mod replay;
mod rngsim;
mod stats;
mod sut;
mod wide;

use events::{Case, Ev};
use json::{i, obj, s, J};
use quire::{Clause, Failure, Mode, Outcome};
use rngsim::Bitmap;
use stats::{Pr, Stats};
use std::sync::atomic::{AtomicBool, AtomicU64, Ordering};
use std::sync::{Arc, Mutex};
use std::time::Instant;

const DEFAULT_SEED: u64 = 20260927;
const CHUNK: u64 = 256;
/// watchdog: a single run (or a replay) that has not returned after this long is a hang
const HANG_MS: u64 = 10_000;

#[derive(Clone)]
struct Opts {
    prop: String,
    tier: String,
    runs: u64,
    seed: u64,
    workers: usize,
    evidence: Option<String>,
    replays: String,
    known: Option<String>,
    profile: String,
    fast_bin: Option<String>,
    digest_only: bool,
    max_seconds: u64,
    /// first run index of the batch (crash bisection runs slices)
    first_run: u64,
}

fn default_runs(prop: &str, tier: &str) -> u64 {
    match (prop, tier) {
        ("C04", "quick") => 400_000,
        ("C12", "quick") => 400_000,
        ("C19", "quick") => 300_000,
        ("C04", _) => 120_000_000,
        ("C12", _) => 120_000_000,
        ("C19", _) => 200_000_000,
        _ => 1000,
    }
}

fn parse_opts(args: &[String]) -> Result<Opts, String> {
    if args.is_empty() {
        return Err("missing property".into());
    }
    let prop = args[0].clone();
    if !["C04", "C12", "C19"].contains(&prop.as_str()) {
        return Err(format!("no check for property {prop} (claimed: C04, C12, C19)"));
    }
    let mut o = Opts {
        prop: prop.clone(),
        tier: std::env::var("VERIF_TIER").unwrap_or_else(|_| "quick".into()),
        runs: 0,
        seed: DEFAULT_SEED,
        workers: std::thread::available_parallelism().map(|n| n.get()).unwrap_or(4).min(16),
        evidence: None,
        replays: "/verif/replays".into(),
        known: None,
        profile: "checked".into(),
        fast_bin: None,
        digest_only: false,
        max_seconds: 0,
        first_run: 0,
    };
    if let Ok(v) = std::env::var("VERIF_SEED") {
        if !v.trim().is_empty() {
            o.seed = v.trim().parse::<u64>().or_else(|_| v.trim().parse::<i64>().map(|x| x as u64)).map_err(|_| "VERIF_SEED is not an integer")?;
        }
    }
    let mut it = args[1..].iter();
    let mut tier_set = false;
    while let Some(a) = it.next() {
        let mut val = || it.next().cloned().ok_or(format!("missing value for {a}"));
        match a.as_str() {
            "--tier" => {
                o.tier = val()?;
                tier_set = true;
            }
            "--runs" => o.runs = val()?.parse().map_err(|_| "bad --runs")?,
            "--seed" => o.seed = val()?.parse().map_err(|_| "bad --seed")?,
            "--workers" => o.workers = val()?.parse().map_err(|_| "bad --workers")?,
            "--evidence" => o.evidence = Some(val()?),
            "--replays" => o.replays = val()?,
            "--known" => o.known = Some(val()?),
            "--profile" => o.profile = val()?,
            "--fast-bin" => o.fast_bin = Some(val()?),
            "--max-seconds" => o.max_seconds = val()?.parse().map_err(|_| "bad --max-seconds")?,
            "--digest-only" => o.digest_only = true,
            "--from" => o.first_run = val()?.parse().map_err(|_| "bad --from")?,
            x => return Err(format!("unknown option {x}")),
        }
    }
    let _ = tier_set;
    if o.tier != "quick" && o.tier != "thorough" {
        return Err(format!("bad tier {}", o.tier));
    }
    if o.runs == 0 {
        o.runs = match std::env::var("VERIF_RUNS") {
            Ok(v) if !v.trim().is_empty() => v.trim().parse().map_err(|_| "bad VERIF_RUNS")?,
            _ => default_runs(&o.prop, &o.tier),
        };
    }
    if o.max_seconds == 0 {
        o.max_seconds = if o.tier == "quick" { 1200 } else { 6 * 3600 };
    }
    o.workers = o.workers.max(1);
    Ok(o)
}

// ---------------------------------------------------------------------------------------
// known findings
// ---------------------------------------------------------------------------------------

struct Known {
    property: String,
    signature: String,
    what: String,
}

fn load_known(path: &Option<String>) -> Vec<Known> {
    let mut v = Vec::new();
    if let Some(p) = path {
        if let Ok(t) = std::fs::read_to_string(p) {
            for l in t.lines() {
                let l = l.trim();
                // finding: property=C04 signature=<sig> :: <what fails>
                if let Some(rest) = l.strip_prefix("finding:") {
                    let rest = rest.trim();
                    let (head, what) = rest.split_once("::").unwrap_or((rest, ""));
                    let mut property = String::new();
                    let mut signature = String::new();
                    if let Some(ix) = head.find("signature=") {
                        signature = head[ix + 10..].trim().to_string();
                        for tok in head[..ix].split_whitespace() {
                            if let Some(p) = tok.strip_prefix("property=") {
                                property = p.to_string();
                            }
                        }
                    }
                    if !property.is_empty() && !signature.is_empty() {
                        v.push(Known { property, signature, what: what.trim().to_string() });
                    }
                }
            }
        }
    }
    v
}

/// Narrow structural signature of a minimised quire history: type, clause, the sequence of
/// event kinds/spellings, and which limbs of the reference sum are non-zero at the failing step.
fn quire_signature(case: &Case, f: &Failure) -> String {
    let kinds: Vec<String> = case
        .events
        .iter()
        .map(|e| match e {
            Ev::Acc(a) => format!("acc{}{}", if a.sub { "-" } else { "+" }, a.sp.name()),
            e => Ev::KIND_NAMES[e.kind()].to_string(),
        })
        .collect();
    format!("{}/{}/{}", case.qt.name(), f.clause.name(), kinds.join(","))
}

fn rng_signature(case: &rngsim::RCase, f: &rngsim::RFailure) -> String {
    format!("{}/{}/{}", case.qt.pname(), f.clause.name(), f.observed.replace(' ', ""))
}

// ---------------------------------------------------------------------------------------
// batch driver
// ---------------------------------------------------------------------------------------

struct QFail {
    run: u64,
    case: Case,
    failure: Failure,
}

struct RFail {
    run: u64,
    gen: rngsim::RGenerated,
}

struct Batch {
    stats: Stats,
    qfails: Vec<QFail>,
    rfails: Vec<RFail>,
    digest: u64,
    /// digest over the runs with index < cross_sub(o)
    digest_prefix: u64,
    wall: f64,
    distinct_nontrivial: u64,
    outcomes: [u64; 3],
    samples: Vec<(u64, String)>,
    timed_out: bool,
    runs_done: u64,
    /// lowest run index on which a worker was stuck longer than HANG_MS
    hang_run: Option<u64>,
}

fn mix(run: u64, d: u64) -> u64 {
    let mut x = run.wrapping_mul(0x9E37_79B9_7F4A_7C15) ^ d;
    prng::splitmix64(&mut x)
}

fn run_batch(o: &Opts) -> Batch {
    let t0 = Instant::now();
    let next = Arc::new(AtomicU64::new(0));
    let stop = Arc::new(AtomicBool::new(false));
    let timed_out = Arc::new(AtomicBool::new(false));
    let nfails = Arc::new(AtomicU64::new(0));
    let span = o.runs.saturating_sub(o.first_run);
    let nchunks = (span + CHUNK - 1) / CHUNK;
    let distinct = Arc::new(Bitmap::new(if o.tier == "quick" { 1 << 28 } else { 1u64 << 33 }));
    let outcomes: Arc<[Bitmap; 3]> = Arc::new([
        Bitmap::new(256),
        Bitmap::new(65536),
        Bitmap::new(if o.prop == "C19" { 1u64 << 32 } else { 64 }),
    ]);
    let merged: Arc<Mutex<(Stats, Vec<QFail>, Vec<RFail>, u64, Vec<(u64, String)>, u64, u64)>> =
        Arc::new(Mutex::new((Stats::new(), Vec::new(), Vec::new(), 0, Vec::new(), 0, 0)));
    let prefix_n = cross_sub(o);
    let mode = match o.prop.as_str() {
        "C04" => Some(Mode::C04),
        "C12" => Some(Mode::C12),
        _ => None,
    };
    let beats: Arc<Vec<(AtomicU64, AtomicU64)>> = Arc::new((0..o.workers).map(|_| (AtomicU64::new(u64::MAX), AtomicU64::new(0))).collect());
    let mut handles = Vec::new();
    for wid in 0..o.workers {
        let beats = beats.clone();
        let next = next.clone();
        let stop = stop.clone();
        let timed_out = timed_out.clone();
        let nfails = nfails.clone();
        let distinct = distinct.clone();
        let outcomes = outcomes.clone();
        let merged = merged.clone();
        let o = o.clone();
        handles.push(std::thread::spawn(move || {
            let mut st = Stats::new();
            let mut qf: Vec<QFail> = Vec::new();
            let mut rf: Vec<RFail> = Vec::new();
            let mut dig: u64 = 0;
            let mut dig_prefix: u64 = 0;
            let mut samples: Vec<(u64, String)> = Vec::new();
            let mut done = 0u64;
            loop {
                if stop.load(Ordering::Relaxed) {
                    break;
                }
                let c = next.fetch_add(1, Ordering::Relaxed);
                if c >= nchunks {
                    break;
                }
                if t0.elapsed().as_secs() > o.max_seconds {
                    timed_out.store(true, Ordering::Relaxed);
                    stop.store(true, Ordering::Relaxed);
                    break;
                }
                let lo = o.first_run + c * CHUNK;
                let hi = (o.first_run + (c + 1) * CHUNK).min(o.runs);
                for run in lo..hi {
                    beats[wid].1.store(t0.elapsed().as_millis() as u64, Ordering::Relaxed);
                    beats[wid].0.store(run, Ordering::Relaxed);
                    st.runs += 1;
                    done += 1;
                    match mode {
                        Some(mode) => {
                            let g = gen::generate_and_run(o.seed, run, mode, &mut st);
                            dig = dig.wrapping_add(mix(run, g.digest));
                            if run < prefix_n {
                                dig_prefix = dig_prefix.wrapping_add(mix(run, g.digest));
                            }
                            if g.nontrivial {
                                st.nontrivial_runs += 1;
                                distinct.set(g.digest);
                            }
                            if run < 4 {
                                let txt: Vec<String> = g.case.events.iter().map(|e| e.text()).collect();
                                samples.push((run, format!("{} init_via={} :: {}", g.case.qt.name(), g.case.init_via, txt.join(" ; "))));
                            }
                            if let Some(f) = g.failure {
                                if f.clause.property() == mode {
                                    if qf.len() < 8 {
                                        qf.push(QFail { run, case: g.case, failure: f });
                                    }
                                    if nfails.fetch_add(1, Ordering::Relaxed) > 48 {
                                        stop.store(true, Ordering::Relaxed);
                                    }
                                } else if mode == Mode::C04 {
                                    st.hit(Pr::ended_by_c12);
                                } else {
                                    st.hit(Pr::ended_by_c04);
                                }
                            }
                        }
                        None => {
                            let g = rngsim::generate_and_run(o.seed, run, &mut st, &outcomes);
                            dig = dig.wrapping_add(mix(run, g.digest));
                            if run < prefix_n {
                                dig_prefix = dig_prefix.wrapping_add(mix(run, g.digest));
                            }
                            if g.case.words.len() >= 2 {
                                st.nontrivial_runs += 1;
                                distinct.set(g.digest);
                            }
                            if run < 4 {
                                samples.push((
                                    run,
                                    format!("{} entry={} nsamples={} :: words {}", g.case.qt.pname(), g.case.entry.name(), g.case.nsamples, g.case.words_text()),
                                ));
                            }
                            if g.failure.is_some() {
                                if rf.len() < 8 {
                                    rf.push(RFail { run, gen: g });
                                }
                                if nfails.fetch_add(1, Ordering::Relaxed) > 48 {
                                    stop.store(true, Ordering::Relaxed);
                                }
                            }
                        }
                    }
                }
            }
            beats[wid].0.store(u64::MAX, Ordering::Relaxed);
            let mut m = merged.lock().unwrap();
            m.0.merge(st);
            m.1.extend(qf);
            m.2.extend(rf);
            m.3 = m.3.wrapping_add(dig);
            m.4.extend(samples);
            m.5 += done;
            m.6 = m.6.wrapping_add(dig_prefix);
        }));
    }
    // monitor: wait for the workers; a worker stuck on one run for longer than HANG_MS is a hang
    let mut hang_run: Option<u64> = None;
    loop {
        if handles.iter().all(|h| h.is_finished()) {
            break;
        }
        std::thread::sleep(std::time::Duration::from_millis(50));
        let now = t0.elapsed().as_millis() as u64;
        for b in beats.iter() {
            let run = b.0.load(Ordering::Relaxed);
            let since = b.1.load(Ordering::Relaxed);
            if run != u64::MAX && now.saturating_sub(since) > HANG_MS {
                hang_run = Some(hang_run.map_or(run, |h| h.min(run)));
            }
        }
        if hang_run.is_some() {
            stop.store(true, Ordering::Relaxed);
            // give the healthy workers a moment to finish their current chunk
            let deadline = Instant::now() + std::time::Duration::from_secs(5);
            while Instant::now() < deadline && handles.iter().filter(|h| !h.is_finished()).count() > 1 {
                std::thread::sleep(std::time::Duration::from_millis(50));
            }
            break;
        }
    }
    if hang_run.is_none() {
        for h in handles {
            if h.join().is_err() {
                eprintln!("simcheck: worker thread died");
                std::process::exit(2);
            }
        }
    }
    // with a hang the stuck worker still holds a reference: take what the others merged
    let m = {
        let mut g = merged.lock().unwrap();
        std::mem::replace(&mut *g, (Stats::new(), Vec::new(), Vec::new(), 0, Vec::new(), 0, 0))
    };
    let (stats, mut qfails, mut rfails, digest, mut samples, runs_done, digest_prefix) = m;
    qfails.sort_by_key(|f| f.run);
    rfails.sort_by_key(|f| f.run);
    samples.sort();
    Batch {
        stats,
        qfails,
        rfails,
        digest,
        digest_prefix,
        wall: t0.elapsed().as_secs_f64(),
        distinct_nontrivial: distinct.count(),
        outcomes: [outcomes[0].count(), outcomes[1].count(), outcomes[2].count()],
        samples,
        timed_out: timed_out.load(Ordering::Relaxed),
        runs_done,
        hang_run,
    }
}

// ---------------------------------------------------------------------------------------
// evidence
// ---------------------------------------------------------------------------------------

/// how many of the batch's runs (a prefix) the second build profile repeats
fn cross_sub(o: &Opts) -> u64 {
    if o.tier == "quick" {
        o.runs
    } else {
        (o.runs / 4).max(1)
    }
}

fn probe_range(prop: &str) -> (usize, usize) {
    match prop {
        "C19" => (Pr::rng_samples as usize, stats::PROBE_NAMES.len()),
        "C04" => (0, Pr::neg_multi_limb as usize),
        _ => (0, Pr::rng_samples as usize),
    }
}

fn write_evidence(o: &Opts, b: &Batch, violations: i128, known_hits: &[String], cross: Option<J>) {
    let path = match &o.evidence {
        Some(p) => p.clone(),
        None => return,
    };
    let st = &b.stats;
    let is_rng = o.prop == "C19";
    let rule = if is_rng {
        "one case = one simulated run: a seeded RNG-fault configuration (mode, width skew, entry point, sample count) \
         and the word stream the simulated generator served to softposit's Standard sampler through rand 0.8 gen_range; \
         evaluations = runs; distinct = distinct (word stream, outcomes) digests (conservative: 2^28/2^33-bit hash bitmap, collisions undercount); \
         non-trivial = the sampler consumed at least 2 words"
    } else {
        "one case = one simulated history: seeded swarm configuration, then up to 96 events (accumulate spellings, cancel-previous, clear, NaR poison, \
         restart-from-image, state injection, reorder replica; for C12 also load/neg/split) applied to the real quire and the exact reference, oracle after every event; \
         evaluations = runs; distinct = distinct digests of (event list, observations) (conservative hash bitmap, collisions undercount); \
         non-trivial = at least 2 effective (non-zero, non-NaR) accumulated terms AND at least one of: sign change, cross-limb carry/borrow, \
         leading bit moved by 8+, exact cancellation, or a non-accumulate event fired"
    };
    let (plo, phi) = probe_range(&o.prop);
    let mut cov: Vec<(&str, J)> = vec![
        ("evaluations", i(b.runs_done)),
        ("distinct_nontrivial", i(b.distinct_nontrivial)),
        ("nontrivial_runs_before_dedup", i(st.nontrivial_runs)),
        ("rule", s(rule)),
        ("samples", J::A(b.samples.iter().take(4).map(|(r, t)| {
            let shown = if t.len() > 1500 { format!("{} … ({} characters in all)", &t[..t.char_indices().take_while(|(i, _)| *i < 1500).last().map(|(i, c)| i + c.len_utf8()).unwrap_or(0)], t.len()) } else { t.clone() };
            obj(vec![("run", i(*r)), ("history", s(&shown))])
        }).collect())),
        ("exhaustive", J::B(false)),
        ("runs_per_hour", J::N(b.runs_done as f64 / b.wall.max(1e-9) * 3600.0)),
        ("seeds_per_hour", J::N(b.runs_done as f64 / b.wall.max(1e-9) * 3600.0)),
        ("seeds_note", s("every run has its own PRNG stream derived from (VERIF_SEED, property, run index): one seed per run")),
        ("simulated_time", obj(vec![
            ("unit", s(if is_rng { "RNG words served (logical steps; nothing in the system reads a clock)" } else { "events applied (logical steps; nothing in the system reads a clock)" })),
            ("steps", i(st.steps)),
        ])),
        ("events_enabled_runs", json::map(&st.named("ev_enabled_runs."))),
        ("events_fired", json::map(&st.named("ev_fired."))),
        ("reach_probes", json::map(&st.named_range("probe.", plo, phi))),
        ("reach_probes_never_hit", J::A(st.named_range("probe.", plo, phi).iter().filter(|(_, v)| **v == 0).map(|(k, _)| s(k)).collect())),
        ("runs_by_type", json::map(&st.named_range("runs.", plo, phi))),
        ("batch_digest", s(&format!("{:016x}", b.digest))),
        ("workers", i(o.workers as u64)),
        ("build_profile", s(&o.profile)),
        ("known_findings_matched", J::A(known_hits.iter().map(|k| s(k)).collect())),
        ("components", obj(vec![
            ("real_code", J::A(if is_rng {
                vec![s("softposit (path /repo, feature rand): impl Distribution<P8E0|P16E1|P32E2> for Standard, P16E1::sub_one, P32E2 subtraction"), s("rand 0.8.8 Rng::gen / gen_range / Uniform single-sample rejection loop / DistIter")]
            } else {
                vec![s("softposit (path /repo): Q8E0, Q16E1, Q32E2 — all AddAssign/SubAssign spellings, add_product/sub_product, Quire trait, AssociatedQuire, init/clear/neg/from_posit/from_bits/to_bits/is_zero/is_nar/to_posit/From impls/into_two_posits/into_three_posits")]
            })),
            ("simulated", J::A(if is_rng { vec![s("the random generator core (SimRng: rand_core::RngCore), every word decided by the run's PRNG")] } else { vec![s("nothing is stubbed: the quire has no environment; the simulator owns the event sequence (operation order, poison, restart, injection, replica order)")] })),
            ("reference_model", s(if is_rng { "bit-pattern range test: sign bit clear and pattern < pattern(1); not NaR" } else { "640-bit exact integer accumulator + posit decode + single rounding by the posit rule (sim/src/wide.rs, posit_ref.rs)" })),
        ])),
    ];
    if is_rng {
        cov.push(("rng_modes_runs", json::map(&st.named("rng_mode_runs."))));
        cov.push(("rng_faults_fired", json::map(&st.named("rng_fault_fired."))));
        cov.push(("rng_entry_points", json::map(&st.named("rng_entry."))));
        cov.push(("rng_counters", json::map(&st.named("rng."))));
        cov.push(("distinct_outcomes", obj(vec![
            ("P8E0", i(b.outcomes[0])),
            ("P8E0_reachable_in_[0,1)", i(64)),
            ("P16E1", i(b.outcomes[1])),
            ("P16E1_patterns_in_[0,1)", i(0x4000)),
            ("P32E2", i(b.outcomes[2])),
            ("P32E2_patterns_in_[0,1)", i(0x4000_0000u64)),
        ])));
    } else {
        cov.push(("states", i(st.abs_states.len() as u64)));
        cov.push(("transitions", i(st.transitions.len() as u64)));
        cov.push(("state_measure", s("abstract state = (quire type, poisoned, sign, index of leading bit, limb of lowest set bit); transition = (state, event kind, state')")));
        cov.push(("operand_structure_classes", obj(vec![
            ("reached", i(st.prod_classes.len() as u64)),
            ("measure", s("distinct (quire type, += or -=, single-or-product, sign / regime polarity and run length / exponent bits of both factors) of accumulated terms; the decode and placement code branches on exactly these fields. Space: Q8E0 2*2*(2*2*14*14) = 3136 product classes, Q16E1 2*2*4*(30*30)*4 = 57600, Q32E2 2*2*4*(62*62)*16 = 984064 (upper bounds; products whose partner is the implicit 1 of a single posit occupy one row)")),
        ])));
        cov.push(("spellings", json::map(&st.named("spelling."))));
        cov.push(("generator", json::map(&st.named("gen."))));
        cov.push(("runs_ended_by_other_propertys_clause", json::map(&st.named("runs.ended_by_"))));
    }
    if let Some(c) = cross {
        cov.push(("cross_profile", c));
    }
    let ev = obj(vec![
        ("property_id", s(&o.prop)),
        ("tier", s(&o.tier)),
        ("seed", i(o.seed)),
        ("level", s("exploration")),
        ("coverage", obj(cov)),
        ("assumptions", J::A(vec![
            s("seeded search samples histories/streams and operand values; it does not enumerate them: a clean batch is evidence, not proof"),
            s("oracle trusted base: sim/src/wide.rs (640-bit integer), sim/src/posit_ref.rs (decode, rounding by the Posit Standard 2022 rule), monotonicity of posit encodings"),
            s("x86-64 little-endian host only"),
            s(if is_rng { "liveness cap assumes the simulated stream serves >= 1/4 uniform words outside bounded bursts (true of SimRng by construction) and rand's gen_range accepts a uniform word with probability >= 1/2" } else { "state injection (from_bits of a structured in-range image) stands in for histories too long to run; every in-range image is a multiple of minpos^2 and so a sum of products" }),
        ])),
        ("wall_s", J::N(b.wall)),
        ("violations", i(violations)),
    ]);
    if let Some(dir) = std::path::Path::new(&path).parent() {
        let _ = std::fs::create_dir_all(dir);
    }
    if let Err(e) = std::fs::write(&path, ev.to_string()) {
        eprintln!("simcheck: cannot write evidence {path}: {e}");
        std::process::exit(2);
    }
}

// ---------------------------------------------------------------------------------------
// replay
// ---------------------------------------------------------------------------------------

/// Replays a file. Prints one machine-readable line and returns the exit code:
/// 1 = the recorded clause fails again (VIOLATION line printed), 0 = history passes, 2 = error.
fn do_replay(path: &str) -> i32 {
    // the replay itself runs in a child process, so that code under test which kills the process
    // (abort, stack overflow, fatal signal) cannot take the reporter down with it
    let exe = match std::env::current_exe() {
        Ok(e) => e,
        Err(_) => return 2,
    };
    let out = match std::process::Command::new(exe).args(["replay-inner", path]).output() {
        Ok(o) => o,
        Err(e) => {
            eprintln!("simcheck: cannot spawn the replay child: {e}");
            return 2;
        }
    };
    print!("{}", String::from_utf8_lossy(&out.stdout));
    eprint!("{}", String::from_utf8_lossy(&out.stderr));
    if let Some(c @ 0..=2) = out.status.code() {
        return c;
    }
    let text = std::fs::read_to_string(path).unwrap_or_default();
    let field = |k: &str| text.lines().find_map(|l| l.strip_prefix(k).map(|v| v.trim().to_string()));
    let property = field("property ").unwrap_or_else(|| "?".into());
    let step = field("step ").or_else(|| field("sample ")).unwrap_or_else(|| "0".into());
    println!("REPLAY-FAIL clause=abort step={step} observed={ABORT_OBSERVED}");
    println!("VIOLATION property={property} replay={path}");
    1
}

fn do_replay_inner(path: &str) -> i32 {
    let r = match replay::read(path) {
        Ok(r) => r,
        Err(e) => {
            eprintln!("simcheck: cannot read replay: {e}");
            return 2;
        }
    };
    match r {
        replay::Replay::Quire { property, case, clause, .. } => {
            println!("replaying {} history of {} events on {}", property, case.events.len(), case.qt.name());
            let c2 = case.clone();
            let mode = if property == "C12" { Mode::C12 } else { Mode::C04 };
            let outcome = with_timeout(HANG_MS, move || {
                let mut st = Stats::new();
                quire::run_case(&c2, mode, &mut st).0
            });
            match outcome {
                None => {
                    println!("REPLAY-FAIL clause=hang step={} observed={}", case.events.len().saturating_sub(1), HANG_OBSERVED);
                    println!("VIOLATION property={property} replay={path}");
                    1
                }
                Some(Outcome::Ok) => {
                    println!("REPLAY-PASS property={property} (recorded clause {} no longer fails)", clause.name());
                    0
                }
                Some(Outcome::Invalid(i, m)) => {
                    eprintln!("simcheck: replay file is not a valid history at event {i}: {m}");
                    2
                }
                Some(Outcome::Fail(f)) => {
                    println!("REPLAY-FAIL clause={} step={} observed={}", f.clause.name(), f.step, f.observed);
                    println!("  event: {}", case.events.get(f.step).map(|e| e.text()).unwrap_or_else(|| "(initial state)".into()));
                    println!("  expected: {}", f.expected);
                    println!("  observed: {}", f.observed);
                    let pid = if f.clause == Clause::Hang { property.clone() } else { f.clause.property().id().to_string() };
                    println!("VIOLATION property={pid} replay={path}");
                    1
                }
            }
        }
        replay::Replay::Sequence { property, seed, upto, clause, tier, .. } => {
            gen::THOROUGH.store(tier == "thorough", Ordering::Relaxed);
            println!("replaying the single-threaded run sequence 0..={upto} of {property} under seed {seed}");
            match seq_first_failure(&property, seed, upto + 1) {
                Some((k, c, obs)) => {
                    println!("REPLAY-FAIL clause={c} step={k} observed={obs}");
                    println!("VIOLATION property={property} replay={path}");
                    1
                }
                None => {
                    println!("REPLAY-PASS property={property} (recorded clause {clause} no longer fails)");
                    0
                }
            }
        }
        replay::Replay::Rng { case, clause, .. } => {
            println!("replaying C19 script of {} words on {}", case.words.len(), case.qt.pname());
            let c2 = case.clone();
            match with_timeout(HANG_MS, move || rngsim::run_rcase(&c2).0) {
                None => {
                    println!("REPLAY-FAIL clause=hang step={} observed={}", case.nsamples.saturating_sub(1), HANG_OBSERVED);
                    println!("VIOLATION property=C19 replay={path}");
                    1
                }
                Some(rngsim::ROutcome::Ok) => {
                    println!("REPLAY-PASS property=C19 (recorded clause {} no longer fails)", clause.name());
                    0
                }
                Some(rngsim::ROutcome::Invalid(m)) => {
                    eprintln!("simcheck: replay script does not cover the samples: {m}");
                    2
                }
                Some(rngsim::ROutcome::Fail(f)) => {
                    println!("REPLAY-FAIL clause={} step={} observed={}", f.clause.name(), f.sample, f.observed);
                    println!("VIOLATION property=C19 replay={path}");
                    1
                }
            }
        }
    }
}

fn fresh_process_replay(path: &str, clause: &str, step: usize, observed: &str) -> Result<(), String> {
    let exe = std::env::current_exe().map_err(|e| e.to_string())?;
    let out = std::process::Command::new(exe).arg("replay").arg(path).output().map_err(|e| e.to_string())?;
    let text = String::from_utf8_lossy(&out.stdout).to_string();
    let want = format!("REPLAY-FAIL clause={clause} step={step} observed={observed}");
    if out.status.code() == Some(1) && text.lines().any(|l| l == want) {
        return Ok(());
    }
    // Same clause at the same step, different observed value: the code under test is not a
    // function of its inputs there (e.g. it reads uninitialised memory). The replay still fails
    // the recorded clause at the recorded step in a fresh process; say so and accept it.
    let loose = format!("REPLAY-FAIL clause={clause} step={step} observed=");
    if out.status.code() == Some(1) && text.lines().any(|l| l.starts_with(&loose)) {
        println!("note: in a fresh process the replay fails the same clause at the same step but with a different observed value: the code under test is not deterministic there");
        return Ok(());
    }
    Err(format!("fresh-process replay did not reproduce (exit {:?}); wanted `{want}`; got:\n{text}", out.status.code()))
}

/// Run `f` on its own thread; None if it has not returned after `ms` (the thread is left behind —
/// the process exits soon after).
fn with_timeout<T: Send + 'static>(ms: u64, f: impl FnOnce() -> T + Send + 'static) -> Option<T> {
    let (tx, rx) = std::sync::mpsc::channel();
    std::thread::spawn(move || {
        let _ = tx.send(f());
    });
    rx.recv_timeout(std::time::Duration::from_millis(ms)).ok()
}

/// `simcheck trace <prop> --seed S --run R --out FILE`: regenerate one run, writing every event /
/// served word to FILE *before* it is applied. Used by the watchdog on a run that never returns.
fn cmd_trace(args: &[String]) -> i32 {
    let prop = match args.first() {
        Some(p) => p.clone(),
        None => return 2,
    };
    let mut seed = DEFAULT_SEED;
    let mut run = 0u64;
    let mut out = String::new();
    let mut it = args[1..].iter();
    while let Some(a) = it.next() {
        match a.as_str() {
            "--seed" => seed = it.next().and_then(|v| v.parse().ok()).unwrap_or(seed),
            "--run" => run = it.next().and_then(|v| v.parse().ok()).unwrap_or(0),
            "--out" => out = it.next().cloned().unwrap_or_default(),
            "--tier" => gen::THOROUGH.store(it.next().map(|t| t == "thorough").unwrap_or(false), Ordering::Relaxed),
            _ => {}
        }
    }
    let file = match std::fs::File::create(&out) {
        Ok(f) => f,
        Err(e) => {
            eprintln!("simcheck: cannot create {out}: {e}");
            return 2;
        }
    };
    let mut st = Stats::new();
    match prop.as_str() {
        "C04" | "C12" => {
            let mode = if prop == "C04" { Mode::C04 } else { Mode::C12 };
            let mut f = file;
            let _ = gen::generate_and_run_traced(seed, run, mode, &mut st, Some(&mut f));
        }
        _ => {
            let outcomes = [Bitmap::new(256), Bitmap::new(65536), Bitmap::new(64)];
            let _ = rngsim::generate_and_run_traced(seed, run, &mut st, &outcomes, Some(Box::new(file)));
        }
    }
    0
}

/// Single-threaded, in run-index order, in this process: the first run in 0..n that fails a clause
/// of `prop`. Deterministic even if the code under test keeps process-global hidden state.
fn seq_first_failure(prop: &str, seed: u64, n: u64) -> Option<(u64, String, String)> {
    let mut st = Stats::new();
    let outcomes = [Bitmap::new(256), Bitmap::new(65536), Bitmap::new(64)];
    for run in 0..n {
        match prop {
            "C04" | "C12" => {
                let mode = if prop == "C04" { Mode::C04 } else { Mode::C12 };
                let g = gen::generate_and_run(seed, run, mode, &mut st);
                if let Some(f) = g.failure {
                    if f.clause.property() == mode {
                        return Some((run, f.clause.name().to_string(), f.observed));
                    }
                }
            }
            _ => {
                let g = rngsim::generate_and_run(seed, run, &mut st, &outcomes);
                if let Some(f) = g.failure {
                    return Some((run, f.clause.name().to_string(), f.observed));
                }
            }
        }
    }
    None
}

/// `simcheck seqfind <prop> --seed S --runs N`: prints `SEQFAIL run=K clause=C observed=…`, exit 1; else exit 0.
fn cmd_seqfind(args: &[String]) -> i32 {
    let prop = match args.first() {
        Some(p) => p.clone(),
        None => return 2,
    };
    let mut seed = DEFAULT_SEED;
    let mut runs = 0u64;
    let mut it = args[1..].iter();
    while let Some(a) = it.next() {
        match a.as_str() {
            "--seed" => seed = it.next().and_then(|v| v.parse().ok()).unwrap_or(seed),
            "--runs" => runs = it.next().and_then(|v| v.parse().ok()).unwrap_or(0),
            "--tier" => gen::THOROUGH.store(it.next().map(|t| t == "thorough").unwrap_or(false), Ordering::Relaxed),
            _ => {}
        }
    }
    match seq_first_failure(&prop, seed, runs) {
        Some((k, c, obs)) => {
            println!("SEQFAIL run={k} clause={c} observed={obs}");
            1
        }
        None => 0,
    }
}

/// Fallback for failures that do not reproduce from their own history: find the first failing
/// run of the single-threaded sequence in a fresh process, record a sequence replay, confirm it.
fn sequence_fallback(o: &Opts) -> Option<String> {
    let n = o.runs.min(3_000_000);
    let exe = std::env::current_exe().ok()?;
    let out = std::process::Command::new(&exe).args(["seqfind", &o.prop, "--seed", &o.seed.to_string(), "--runs", &n.to_string(), "--tier", &o.tier]).output().ok()?;
    let t = String::from_utf8_lossy(&out.stdout).to_string();
    let line = t.lines().find(|l| l.starts_with("SEQFAIL "))?.to_string();
    let rest = line.strip_prefix("SEQFAIL run=")?;
    let (k, rest) = rest.split_once(" clause=")?;
    let (clause, observed) = rest.split_once(" observed=")?;
    let k: u64 = k.parse().ok()?;
    let path = format!("{}/{}-{}-seq{}.replay", o.replays, o.prop, o.seed, k);
    replay::write_sequence(&path, &o.prop, o.seed, k, &o.profile, &o.tier, clause, observed).ok()?;
    if let Err(e) = fresh_process_replay(&path, clause, k as usize, observed) {
        eprintln!("simcheck: {e}");
        return None;
    }
    println!(
        "violation: a failure that does not reproduce from its own history alone (hidden state across operations in the code under test): the single-threaded sequence of runs 0..={k} fails clause {clause} at run {k}: {observed}"
    );
    Some(path)
}

/// Diagnostic (NOT a check, and not this family's technique): one accumulate from a cleared quire,
/// for EVERY operand (q16one: 2^16 single posits, += and -=; q32one: 2^32 single posits, += and -=;
/// q16prod: all 2^32 operand pairs, +=; q8: everything), compared with the exact reference image.
/// Used only to classify surviving mutant PAIRS of the accumulate code as equivalent or not.
fn enumerate_fdp(what: &str) -> i32 {
    use posit_ref::{decode, Dec, QT};
    use sut::{Sp, Sut};
    let bad = AtomicU64::new(0);
    let examples: Mutex<Vec<String>> = Mutex::new(Vec::new());
    let note = |s: String| {
        let mut g = examples.lock().unwrap();
        if g.len() < 6 {
            g.push(s);
        }
    };
    // exact image of +-(m * 2^pos) in w bits, as 8 big-endian limbs (pos = bit position of m's bit 0)
    fn image(w: u32, neg: bool, m: u128, pos: u32) -> [u64; 8] {
        let mut v = wide::Wide::from_u128(m).shl(pos);
        if neg {
            v = v.neg();
        }
        v.image(w)
    }
    let threads = 16u64;
    match what {
        "q16one" | "q16prod" | "q8" => {
            let qt = if what == "q8" { QT::Q8 } else { QT::Q16 };
            let n = 1u64 << qt.n();
            // decode table
            let tab: Vec<Option<(bool, u64, i32)>> = (0..n as u32)
                .map(|p| match decode(qt, p) {
                    Dec::Val { neg, m, e, .. } => Some((neg, m, e)),
                    _ => None,
                })
                .collect();
            let f = qt.f() as i32;
            let run = |a: u32, b: Option<u32>, sub: bool| -> Option<String> {
                let exp: [u64; 8] = {
                    let nar = a == qt.nar() || b == Some(qt.nar());
                    if nar {
                        qt.nar_image()
                    } else {
                        match (tab[a as usize], b.map(|b| tab[b as usize])) {
                            (Some((na, ma, ea)), None) => image(qt.w(), na ^ sub, ma as u128, (ea + f) as u32),
                            (Some((na, ma, ea)), Some(Some((nb, mb, eb)))) => image(qt.w(), na ^ nb ^ sub, ma as u128 * mb as u128, (ea + eb + f) as u32),
                            _ => [0; 8],
                        }
                    }
                };
                let got = std::panic::catch_unwind(|| {
                    macro_rules! go {
                        ($Q:ty) => {{
                            let mut q = <$Q as Sut>::init(0);
                            match b {
                                None => q.acc(Sp::One, sub, &[a]),
                                Some(b) => q.acc(Sp::Prod, sub, &[a, b]),
                            }
                            q.img(0)
                        }};
                    }
                    if qt == QT::Q8 { go!(softposit::Q8E0) } else { go!(softposit::Q16E1) }
                });
                match got {
                    Ok(g) if g == exp => None,
                    Ok(_) => Some(format!("{}{:x} {:?}: wrong image", if sub { "-=" } else { "+=" }, a, b.map(|b| format!("{:x}", b)))),
                    Err(_) => Some(format!("{}{:x} {:?}: panic", if sub { "-=" } else { "+=" }, a, b.map(|b| format!("{:x}", b)))),
                }
            };
            if what != "q16prod" {
                for a in 0..n as u32 {
                    for sub in [false, true] {
                        if let Some(m) = run(a, None, sub) {
                            bad.fetch_add(1, Ordering::Relaxed);
                            note(m);
                        }
                    }
                }
            }
            if what != "q16one" {
                std::thread::scope(|sc| {
                    for t in 0..threads {
                        let (run, bad, note) = (&run, &bad, &note);
                        sc.spawn(move || {
                            for a in (n * t / threads)..(n * (t + 1) / threads) {
                                for b in 0..n {
                                    let subs: &[bool] = if what == "q8" { &[false, true] } else { &[false] };
                                    for &sub in subs {
                                        if let Some(m) = run(a as u32, Some(b as u32), sub) {
                                            bad.fetch_add(1, Ordering::Relaxed);
                                            note(m);
                                        }
                                    }
                                }
                            }
                        });
                    }
                });
            }
        }
        "q32one" => {
            let qt = QT::Q32;
            std::thread::scope(|sc| {
                for t in 0..threads {
                    let (bad, note) = (&bad, &note);
                    sc.spawn(move || {
                        for a in ((1u64 << 32) * t / threads)..((1u64 << 32) * (t + 1) / threads) {
                            let a = a as u32;
                            for sub in [false, true] {
                                let exp = if a == qt.nar() {
                                    qt.nar_image()
                                } else {
                                    match decode(qt, a) {
                                        Dec::Val { neg, m, e, .. } => image(512, neg ^ sub, m as u128, (e + 240) as u32),
                                        _ => [0; 8],
                                    }
                                };
                                let got = std::panic::catch_unwind(|| {
                                    let mut q = <softposit::Q32E2 as Sut>::init(0);
                                    q.acc(Sp::One, sub, &[a]);
                                    q.img(0)
                                });
                                if got.as_ref().ok() != Some(&exp) {
                                    bad.fetch_add(1, Ordering::Relaxed);
                                    note(format!("{}{:x}: {}", if sub { "-=" } else { "+=" }, a, if got.is_ok() { "wrong image" } else { "panic" }));
                                }
                            }
                        }
                    });
                }
            });
        }
        "q32prod" => {
            // not exhaustive (2^64 pairs): every (sign, regime polarity and length, exponent) class of
            // both factors, with 600 fraction fillings each (random, all zeros, all ones, single bits)
            let qt = QT::Q32;
            let mk = |neg: bool, rl: u32, pol: bool, e: u32, fill: u64| -> u32 {
                let mut body: u32 = 0;
                let mut used = 0u32;
                for i in 0..31u32 {
                    let bit = if i < rl {
                        pol
                    } else if i == rl {
                        !pol
                    } else if i - rl - 1 < 2 {
                        (e >> (1 - (i - rl - 1))) & 1 != 0
                    } else {
                        used += 1;
                        (fill >> (used % 64)) & 1 != 0
                    };
                    body = (body << 1) | bit as u32;
                }
                if body == 0 {
                    body = 1;
                }
                if neg { body.wrapping_neg() } else { body }
            };
            std::thread::scope(|sc| {
                for t in 0..threads {
                    let (bad, note, mk) = (&bad, &note, &mk);
                    sc.spawn(move || {
                        let mut rng = prng::Prng::for_run(7, 77, t);
                        for rla in 1..=30u32 {
                            if (rla as u64) % threads != t % threads && threads > 1 && (rla as u64 % threads) != t {
                                continue;
                            }
                            for rlb in 1..=30u32 {
                                for cls in 0..(2 * 2 * 2 * 2 * 4 * 4) as u32 {
                                    let (na, nb, pa, pb) = (cls & 1 != 0, cls & 2 != 0, cls & 4 != 0, cls & 8 != 0);
                                    let (ea, eb) = ((cls >> 4) & 3, (cls >> 6) & 3);
                                    for k in 0..400u32 {
                                        let (fa, fb) = match k {
                                            0 => (0, 0),
                                            1 => (u64::MAX, u64::MAX),
                                            2 => (u64::MAX, 0),
                                            3 => (1 << (rng.below(28) + 1), u64::MAX),
                                            _ => (rng.next(), rng.next()),
                                        };
                                        let a = mk(na, rla, pa, ea, fa);
                                        let b = mk(nb, rlb, pb, eb, fb);
                                        if a == qt.nar() || b == qt.nar() {
                                            continue;
                                        }
                                        let sub = k & 1 == 1;
                                        let exp = posit_ref::product_units(qt, a, b).map(|w| if sub { w.neg() } else { w }).unwrap().image(512);
                                        let got = std::panic::catch_unwind(|| {
                                            let mut q = <softposit::Q32E2 as Sut>::init(0);
                                            q.acc(Sp::Prod, sub, &[a, b]);
                                            q.img(0)
                                        });
                                        if got.as_ref().ok() != Some(&exp) {
                                            bad.fetch_add(1, Ordering::Relaxed);
                                            note(format!("{}({:x},{:x}): {}", if sub { "-=" } else { "+=" }, a, b, if got.is_ok() { "wrong image" } else { "panic" }));
                                        }
                                    }
                                }
                            }
                        }
                    });
                }
            });
        }
        x => {
            eprintln!("enumerate-fdp: unknown mode {x}");
            return 2;
        }
    }
    let n = bad.load(Ordering::Relaxed);
    println!("ENUMERATE-FDP {what} bad={n}");
    for l in examples.lock().unwrap().iter() {
        println!("  {l}");
    }
    if n == 0 { 0 } else { 1 }
}

/// Diagnostic (NOT a check, and not this family's technique): enumerate the whole word -> sample
/// mapping of the three samplers as they are today (one accepted word per `gen_range` call:
/// P8E0 64 values, P16E1 2^18, P32E2 2^27 x 4), assuming rand 0.8's mapping for the crate's present
/// power-of-two ranges. Used only to classify survivors of tools/mutation_sweep.py --regions c19arith
/// as "property still holds for every stream" or "blind spot". Prints the number of bad samples.
fn enumerate_samplers() -> i32 {
    use rand::Rng;
    use softposit::{P16E1, P32E2, P8E0};
    let bad_total = std::sync::atomic::AtomicU64::new(0);
    let first_bad: Mutex<Vec<String>> = Mutex::new(Vec::new());
    let note = |s: String| {
        let mut g = first_bad.lock().unwrap();
        if g.len() < 8 {
            g.push(s);
        }
    };
    // P8E0: value v in 0..64 from word v << 26
    for v in 0u32..64 {
        let w = v << 26;
        let r = std::panic::catch_unwind(|| {
            let mut rng = rngsim::ScriptedRng::new(vec![(rngsim::Method::U32, w as u64)]);
            let p: P8E0 = rng.gen();
            p.to_bits() as u32
        });
        match r {
            Ok(b) if rngsim::judge(posit_ref::QT::Q8, b).is_none() => {}
            Ok(b) => {
                bad_total.fetch_add(1, Ordering::Relaxed);
                note(format!("P8E0 word {w:08x} -> {b:02x}"));
            }
            Err(_) => {
                bad_total.fetch_add(1, Ordering::Relaxed);
                note(format!("P8E0 word {w:08x} -> panic"));
            }
        }
    }
    // P16E1: value v in 0..2^18 from word v << 14 (bit 13 clear: accepted)
    for v in 0u32..(1 << 18) {
        let w = v << 14;
        let r = std::panic::catch_unwind(|| {
            let mut rng = rngsim::ScriptedRng::new(vec![(rngsim::Method::U32, w as u64)]);
            let p: P16E1 = rng.gen();
            p.to_bits() as u32
        });
        match r {
            Ok(b) if rngsim::judge(posit_ref::QT::Q16, b).is_none() => {}
            Ok(b) => {
                bad_total.fetch_add(1, Ordering::Relaxed);
                note(format!("P16E1 word {w:08x} -> {b:04x}"));
            }
            Err(_) => {
                bad_total.fetch_add(1, Ordering::Relaxed);
                note(format!("P16E1 word {w:08x} -> panic"));
            }
        }
    }
    // P32E2: first value v in 0..2^27 from word v << 5 (bit 4 clear), second value s2 from s2 << 30
    let threads = 16u32;
    std::thread::scope(|sc| {
        for t in 0..threads {
            let bad_total = &bad_total;
            let note = &note;
            sc.spawn(move || {
                let lo = (1u64 << 27) * t as u64 / threads as u64;
                let hi = (1u64 << 27) * (t as u64 + 1) / threads as u64;
                for v in lo..hi {
                    for s2 in 0u32..4 {
                        let (w1, w2) = ((v as u32) << 5, s2 << 30);
                        let r = std::panic::catch_unwind(|| {
                            let mut rng = rngsim::ScriptedRng::new(vec![(rngsim::Method::U32, w1 as u64), (rngsim::Method::U32, w2 as u64)]);
                            let p: P32E2 = rng.gen();
                            p.to_bits()
                        });
                        match r {
                            Ok(b) if rngsim::judge(posit_ref::QT::Q32, b).is_none() => {}
                            Ok(b) => {
                                bad_total.fetch_add(1, Ordering::Relaxed);
                                note(format!("P32E2 words {w1:08x} {w2:08x} -> {b:08x}"));
                            }
                            Err(_) => {
                                bad_total.fetch_add(1, Ordering::Relaxed);
                                note(format!("P32E2 words {w1:08x} {w2:08x} -> panic / script exhausted (the sampler draws differently)"));
                            }
                        }
                    }
                }
            });
        }
    });
    let n = bad_total.load(Ordering::Relaxed);
    println!("ENUMERATE bad={n}");
    for l in first_bad.lock().unwrap().iter() {
        println!("  {l}");
    }
    if n == 0 { 0 } else { 1 }
}

/// Diagnostic (not a check): replay the logic of the crate's own `quire32::ops::test_quire_mul_sub`
/// (q -= (a,b); q += c; compare with P32E2::from((-a).mul_add(b, c)) in f64) on sampler-distributed
/// operands, and say, for each disagreement, which side the exact reference supports.
fn probe_suite_fma(n: u64) -> i32 {
    use rand::Rng;
    use softposit::{P32E2, Q32E2};
    let mut prng = prng::Prng::for_run(1, 99, 0);
    let mut sim = rngsim::SimRng::new(&mut prng, rngsim::RngMode::Uniform, false);
    sim.cap_factor = u32::MAX / 2048;
    let qt = posit_ref::QT::Q32;
    let (mut disagree, mut quire_wrong, mut f64_wrong) = (0u64, 0u64, 0u64);
    for i in 0..n {
        if i % 1024 == 0 {
            sim.begin_sample();
            sim.served.clear();
        }
        let a: P32E2 = sim.gen();
        let b: P32E2 = sim.gen();
        let c: P32E2 = sim.gen();
        let mut q = Q32E2::init();
        q -= (a, b);
        q += c;
        let got = q.to_posit().to_bits();
        let f = (-f64::from(a)).mul_add(f64::from(b), f64::from(c));
        let via_f64 = P32E2::from(f).to_bits();
        if got != via_f64 {
            disagree += 1;
            let exact = posit_ref::product_units(qt, a.to_bits(), b.to_bits()).unwrap().neg().add(&posit_ref::posit_units(qt, c.to_bits()).unwrap());
            let want = posit_ref::round_exact(qt, &exact).posit;
            if got != want {
                quire_wrong += 1;
            }
            if via_f64 != want {
                f64_wrong += 1;
            }
            if disagree <= 5 {
                println!("a={:08x} b={:08x} c={:08x}: quire={:08x} f64-path={:08x} exact-reference={:08x}", a.to_bits(), b.to_bits(), c.to_bits(), got, via_f64, want);
            }
        }
    }
    println!("probe: {n} triples, {disagree} disagreements between the quire and the suite's f64 reference; quire differs from the exact reference in {quire_wrong}, f64 path differs in {f64_wrong}");
    0
}

const HANG_OBSERVED: &str = "no return within 10 s";

/// A worker was stuck on run `run`: regenerate it in a child process with tracing, kill the child,
/// turn the partial trace into a replay file, confirm it in a fresh process, report it.
/// `simcheck crashfind <prop> …same options as run…`: the batch process died (abort, stack overflow,
/// fatal signal — nothing `catch_unwind` can catch). Find the first run that kills a process by
/// running slices of the batch in child processes and bisecting, then report it like a hang.
fn cmd_crashfind(o: &Opts) -> i32 {
    let exe = match std::env::current_exe() {
        Ok(e) => e,
        Err(_) => return 2,
    };
    let dies = |from: u64, to: u64, workers: usize| -> Option<bool> {
        let out = std::process::Command::new(&exe)
            .args(["run", &o.prop, "--tier", &o.tier, "--seed", &o.seed.to_string(), "--from", &from.to_string(), "--runs", &to.to_string(), "--workers", &workers.to_string(), "--profile", &o.profile, "--digest-only"])
            .output()
            .ok()?;
        Some(!matches!(out.status.code(), Some(0..=2)))
    };
    println!("simcheck: the batch process died; looking for the run that kills it (profile {})", o.profile);
    // phase 1: halve with parallel children until the slice is small, then single-threaded bisection
    let (mut a, mut b) = (0u64, o.runs);
    match dies(a, b, o.workers) {
        Some(true) => {}
        _ => {
            eprintln!("simcheck: the batch does not die when repeated: harness error, no verdict");
            return 2;
        }
    }
    while b - a > 1 {
        let mid = a + (b - a) / 2;
        let w = if b - a > 20_000 { o.workers } else { 1 };
        match dies(a, mid, w) {
            Some(true) => b = mid,
            Some(false) => a = mid,
            None => return 2,
        }
    }
    // [a, b) is one run: confirm
    if dies(a, b, 1) != Some(true) {
        eprintln!("simcheck: bisection ended on run {a}, which does not kill a process on its own (hidden state?): harness error, no verdict");
        return 2;
    }
    handle_stuck_or_dead(o, a, true)
}

const ABORT_OBSERVED: &str = "process died (abort, stack overflow or fatal signal)";

fn handle_hang(o: &Opts, run: u64) -> i32 {
    handle_stuck_or_dead(o, run, false)
}

/// `dead` = false: run `run` never returns (kill the trace child after the watchdog limit);
/// `dead` = true: run `run` kills the process (the trace child dies by itself).
fn handle_stuck_or_dead(o: &Opts, run: u64, dead: bool) -> i32 {
    let (kname, kobs) = if dead { ("abort", ABORT_OBSERVED) } else { ("hang", HANG_OBSERVED) };
    let qclause = if dead { Clause::Abort } else { Clause::Hang };
    let rclause = if dead { rngsim::RClause::Abort } else { rngsim::RClause::Hang };
    let _ = std::fs::create_dir_all(&o.replays);
    let tmp = format!("{}/{}-{}-{}.trace.tmp", o.replays, o.prop, o.seed, run);
    let exe = match std::env::current_exe() {
        Ok(e) => e,
        Err(_) => return 2,
    };
    let mut child = match std::process::Command::new(exe)
        .args(["trace", &o.prop, "--seed", &o.seed.to_string(), "--run", &run.to_string(), "--out", &tmp, "--tier", &o.tier])
        .spawn()
    {
        Ok(c) => c,
        Err(e) => {
            eprintln!("simcheck: cannot spawn the trace child: {e}");
            return 2;
        }
    };
    let t0 = Instant::now();
    let mut exited: Option<std::process::ExitStatus> = None;
    while t0.elapsed().as_millis() < (HANG_MS + 5_000) as u128 {
        if let Ok(Some(st)) = child.try_wait() {
            exited = Some(st);
            break;
        }
        std::thread::sleep(std::time::Duration::from_millis(50));
    }
    match (dead, exited) {
        (false, Some(_)) => {
            eprintln!("simcheck: note: run {run} exceeded the watchdog in the batch but returns in a fresh process (machine stalled?)");
            let _ = std::fs::remove_file(&tmp);
            return 3; // spurious: the caller repeats the batch once
        }
        (true, Some(st)) if matches!(st.code(), Some(0..=2)) => {
            eprintln!("simcheck: run {run} was blamed for killing the process but returns in a fresh process: harness error");
            let _ = std::fs::remove_file(&tmp);
            return 2;
        }
        (true, None) => {
            // it was supposed to die, not to hang
            let _ = child.kill();
            let _ = child.wait();
            let _ = std::fs::remove_file(&tmp);
            return 2;
        }
        (false, None) => {
            let _ = child.kill();
            let _ = child.wait();
        }
        (true, Some(_)) => {}
    }
    let text = std::fs::read_to_string(&tmp).unwrap_or_default();
    let _ = std::fs::remove_file(&tmp);
    let path = format!("{}/{}-{}-{}.replay", o.replays, o.prop, o.seed, run);
    let meta = replay::Meta { seed: o.seed, run, profile: o.profile.clone(), original_events: 0 };
    let mut lines = text.lines();
    let qt = lines.next().and_then(|l| l.strip_prefix("type ")).and_then(posit_ref::QT::parse);
    let qt = match qt {
        Some(q) => q,
        None => {
            eprintln!("simcheck: empty trace for run {run}");
            return 2;
        }
    };
    if o.prop == "C19" {
        let entry = lines.next().and_then(|l| l.strip_prefix("entry ")).and_then(rngsim::Entry::parse).unwrap_or(rngsim::Entry::Gen);
        let hdr_n: usize = lines.next().and_then(|l| l.strip_prefix("nsamples ")).and_then(|v| v.parse().ok()).unwrap_or(1);
        let mut words = Vec::new();
        let mut markers = 0usize;
        let mut last_sample_start = 0usize;
        for l in lines {
            if l.trim() == "sample" {
                markers += 1;
                last_sample_start = words.len();
            } else if let Ok(w) = rngsim::RCase::parse_words(l) {
                words.extend(w);
            }
        }
        let nsamples = if entry == rngsim::Entry::Iter { hdr_n } else { markers.max(1) };
        let mut case = rngsim::RCase { qt, entry, nsamples, words };
        let mut f = rngsim::RFailure { clause: rclause, sample: nsamples - 1, observed: kobs.into() };
        // cheap minimisation: the last started sample alone (one fresh-process trial)
        if entry != rngsim::Entry::Iter && nsamples > 1 && last_sample_start <= case.words.len() {
            let c1 = rngsim::RCase { qt, entry, nsamples: 1, words: case.words[last_sample_start..].to_vec() };
            let f1 = rngsim::RFailure { clause: rclause, sample: 0, observed: kobs.into() };
            if replay::write_rng(&path, &meta, &c1, &f1).is_ok() && fresh_process_replay(&path, kname, 0, kobs).is_ok() {
                case = c1;
                f = f1;
            }
        }
        if replay::write_rng(&path, &meta, &case, &f).is_err() {
            return 2;
        }
        if let Err(e) = fresh_process_replay(&path, kname, f.sample, kobs) {
            eprintln!("simcheck: {e}");
            return 2;
        }
        println!("violation: run {run}: the sampler {} after {} words ({} samples started; replay holds {} sample(s))", if dead { "killed the process" } else { "did not return within the watchdog limit" }, case.words.len(), nsamples, case.nsamples);
        println!("  words: {}", case.words_text());
    } else {
        let init_via: u8 = lines.next().and_then(|l| l.strip_prefix("init_via ")).and_then(|v| v.parse().ok()).unwrap_or(0);
        let mut events = Vec::new();
        for l in lines {
            match Ev::parse(l) {
                Ok(e) => events.push(e),
                Err(_) => break, // a torn last line
            }
        }
        if events.is_empty() {
            eprintln!("simcheck: hanging run {run} left no event in its trace");
            return 2;
        }
        let full = Case { qt, init_via, events };
        let mk = |c: &Case| Failure { clause: qclause, step: c.events.len() - 1, expected: "the event and the observers after it return".into(), observed: kobs.into() };
        // cheap minimisation: the shortest suffix (1..4 events, from a cleared quire) that still
        // hangs — each trial is a fresh process, so at most four of them
        let mut case = full.clone();
        for n in 1..=4usize.min(full.events.len().saturating_sub(1)) {
            let c = Case { qt, init_via: 0, events: full.events[full.events.len() - n..].to_vec() };
            let f = mk(&c);
            if replay::write_quire(&path, &o.prop, &meta, &c, &f).is_ok() && fresh_process_replay(&path, kname, f.step, kobs).is_ok() {
                case = c;
                break;
            }
        }
        let f = mk(&case);
        let step = f.step;
        if replay::write_quire(&path, &o.prop, &meta, &case, &f).is_err() {
            return 2;
        }
        if let Err(e) = fresh_process_replay(&path, kname, step, kobs) {
            eprintln!("simcheck: {e}");
            return 2;
        }
        println!("violation: run {run}: event {step} of this history (or an observer after it) {} ({} of the run's {} events kept)", if dead { "killed the process" } else { "did not return within the watchdog limit" }, case.events.len(), full.events.len());
        for (n, e) in case.events.iter().enumerate() {
            println!("  [{n}] {}{}", e.text(), px_note(case.qt, e));
        }
    }
    println!("VIOLATION property={} replay={}", o.prop, path);
    1
}

// ---------------------------------------------------------------------------------------
// main
// ---------------------------------------------------------------------------------------

fn cmd_run(o: &Opts) -> i32 {
    println!(
        "simcheck: property={} tier={} seed={} runs={} workers={} profile={}",
        o.prop, o.tier, o.seed, o.runs, o.workers, o.profile
    );
    gen::THOROUGH.store(o.tier == "thorough", Ordering::Relaxed);
    let mut b = run_batch(o);
    if !o.digest_only && !b.timed_out {
        if let Some(run) = b.hang_run {
            // a stalled machine can trip the watchdog: confirm in a fresh process, and if the run
            // returns there, repeat the batch once before giving up
            match handle_hang(o, run) {
                3 => {
                    eprintln!("simcheck: repeating the batch once");
                    b = run_batch(o);
                    if let Some(run2) = b.hang_run {
                        return match handle_hang(o, run2) {
                            1 => {
                                write_evidence(o, &b, 1, &[], None);
                                1
                            }
                            _ => {
                                eprintln!("simcheck: watchdog tripped twice on runs that return in a fresh process: harness error, no verdict");
                                2
                            }
                        };
                    }
                }
                1 => {
                    write_evidence(o, &b, 1, &[], None);
                    return 1;
                }
                c => return c,
            }
        }
    }
    if o.digest_only {
        println!(
            "DIGEST property={} seed={} runs={} digest={:016x} failures={}",
            o.prop,
            o.seed,
            b.runs_done,
            b.digest,
            b.qfails.len() + b.rfails.len()
        );
        return if b.timed_out || b.hang_run.is_some() { 2 } else { 0 };
    }
    if b.timed_out {
        eprintln!("simcheck: wall-clock safety cap hit after {} of {} runs: harness error, no verdict", b.runs_done, o.runs);
        return 2;
    }
    let known = load_known(&o.known);
    let mut known_hits: Vec<String> = Vec::new();
    let mut violation: Option<String> = None;
    // failures seen during generation that do not fail again from their own recorded history
    let mut not_isolated = 0u32;
    let _ = std::fs::create_dir_all(&o.replays);

    for qf in &b.qfails {
        let (c0, cl0) = (qf.case.clone(), qf.failure.clause);
        let mode0 = if o.prop == "C12" { Mode::C12 } else { Mode::C04 };
        let shrunk = with_timeout(90_000, move || {
            let mut sh = minimise::Shrinker::new(cl0, mode0);
            sh.minimise(&c0).map(|(c, f)| (c, f, sh.evals))
        });
        let (case, f, evals) = match shrunk {
            Some(Some(x)) => x,
            None => {
                println!("note: minimisation of run {} did not finish in 90 s; reporting the unminimised history", qf.run);
                (qf.case.clone(), qf.failure.clone(), 0)
            }
            Some(None) => {
                not_isolated += 1;
                continue;
            }
        };
        let sig = quire_signature(&case, &f);
        if let Some(k) = known.iter().find(|k| k.property == o.prop && k.signature == sig) {
            if !known_hits.contains(&sig) {
                println!("KNOWN-FINDING: property={} {} [{}]", o.prop, k.what, sig);
                known_hits.push(sig);
            }
            continue;
        }
        let path = format!("{}/{}-{}-{}.replay", o.replays, o.prop, o.seed, qf.run);
        let meta = replay::Meta { seed: o.seed, run: qf.run, profile: o.profile.clone(), original_events: qf.case.events.len() };
        if let Err(e) = replay::write_quire(&path, &o.prop, &meta, &case, &f) {
            eprintln!("simcheck: cannot write {path}: {e}");
            return 2;
        }
        if fresh_process_replay(&path, f.clause.name(), f.step, &f.observed).is_err() {
            let _ = std::fs::remove_file(&path);
            not_isolated += 1;
            continue;
        }
        println!(
            "violation: run {} ({} events, minimised to {} in {} evaluations): clause {} at step {}",
            qf.run,
            qf.case.events.len(),
            case.events.len(),
            evals,
            f.clause.name(),
            f.step
        );
        for (n, e) in case.events.iter().enumerate() {
            println!("  [{n}] {}{}", e.text(), px_note(case.qt, e));
        }
        println!("  expected: {}", f.expected);
        println!("  observed: {}", f.observed);
        println!("  signature: {sig}");
        violation = Some(path);
        break;
    }
    if violation.is_none() {
        for rf in &b.rfails {
            let f0 = rf.gen.failure.clone().unwrap();
            let (g0, cl0) = (rf.gen.clone(), f0.clause);
            let (case, f) = match with_timeout(90_000, move || rngsim::minimise(&g0, cl0)) {
                Some(x) => x,
                None => {
                    println!("note: minimisation of run {} did not finish in 90 s; reporting the unminimised script", rf.run);
                    (rf.gen.case.clone(), f0.clone())
                }
            };
            let sig = rng_signature(&case, &f);
            if let Some(k) = known.iter().find(|k| k.property == o.prop && k.signature == sig) {
                if !known_hits.contains(&sig) {
                    println!("KNOWN-FINDING: property={} {} [{}]", o.prop, k.what, sig);
                    known_hits.push(sig);
                }
                continue;
            }
            let path = format!("{}/{}-{}-{}.replay", o.replays, o.prop, o.seed, rf.run);
            let meta = replay::Meta { seed: o.seed, run: rf.run, profile: o.profile.clone(), original_events: rf.gen.case.words.len() };
            if let Err(e) = replay::write_rng(&path, &meta, &case, &f) {
                eprintln!("simcheck: cannot write {path}: {e}");
                return 2;
            }
            if fresh_process_replay(&path, f.clause.name(), f.sample, &f.observed).is_err() {
                let _ = std::fs::remove_file(&path);
                not_isolated += 1;
                continue;
            }
            println!(
                "violation: run {} ({} words over {} samples, minimised to {} words): clause {} — {}",
                rf.run,
                rf.gen.case.words.len(),
                rf.gen.case.nsamples,
                case.words.len(),
                f.clause.name(),
                f.observed
            );
            let wt = case.words_text();
            if wt.len() > 600 {
                println!("  words: {} … ({} words; full script in the replay file)", &wt[..600], case.words.len());
            } else {
                println!("  words: {wt}");
            }
            println!("  signature: {sig}");
            violation = Some(path);
            break;
        }
    }

    if violation.is_none() && not_isolated > 0 {
        println!("note: {not_isolated} failing run(s) did not fail again from their own recorded history; trying the whole single-threaded run sequence");
        match sequence_fallback(o) {
            Some(p) => violation = Some(p),
            None => {
                eprintln!("simcheck: {not_isolated} run(s) failed during the batch but neither their own history nor the single-threaded run sequence reproduces a failure in a fresh process: harness error, no verdict");
                return 2;
            }
        }
    }

    // second build profile: the plain optimised build (no overflow checks, no debug assertions —
    // what a downstream user ships) runs the same check on a sub-batch of the same runs. A
    // violation there is a violation; as a by-product the two builds' digests (every observed
    // bit) are compared.
    let mut cross: Option<J> = None;
    let mut cross_violation = false;
    if let (Some(fb), None) = (&o.fast_bin, &violation) {
        let sub = cross_sub(o);
        let out = std::process::Command::new(fb)
            .args(["run", &o.prop, "--tier", &o.tier, "--runs", &sub.to_string(), "--seed", &o.seed.to_string(), "--workers", &o.workers.to_string(), "--profile", "fast", "--replays", &o.replays])
            .args(o.known.iter().flat_map(|k| vec!["--known".to_string(), k.clone()]))
            .output();
        match out {
            Ok(out) => {
                let t = String::from_utf8_lossy(&out.stdout).to_string();
                let d = t.lines().find(|l| l.starts_with("DIGEST")).unwrap_or("").to_string();
                let mine = format!("DIGEST property={} seed={} runs={} digest={:016x}", o.prop, o.seed, sub, b.digest_prefix);
                match out.status.code() {
                    Some(0) => {
                        let same = d == mine;
                        cross = Some(obj(vec![
                            ("profile", s("fast: opt-level 3, overflow-checks off, debug-assertions off")),
                            ("runs", i(sub)),
                            ("violations", i(0)),
                            ("checked_profile_digest", s(&mine)),
                            ("fast_profile_digest", s(&d)),
                            ("identical_observations", J::B(same)),
                        ]));
                        if !same {
                            // not a verdict on the property: both builds satisfy the oracle on every run.
                            // It means the code under test is not a function of its inputs alone (hidden
                            // state, or profile-dependent values that the oracle does not constrain).
                            println!("note: both build profiles satisfy the oracle, but they did not observe identical bits on the same runs (see evidence.cross_profile)");
                        }
                    }
                    Some(1) => {
                        println!("--- the plain optimised build (profile fast) reports:");
                        print!("{t}");
                        cross = Some(obj(vec![("profile", s("fast")), ("runs", i(sub)), ("violations", i(1))]));
                        cross_violation = true;
                    }
                    Some(2) => {
                        eprintln!("simcheck: fast-profile sub-batch failed (exit 2):\n{t}{}", String::from_utf8_lossy(&out.stderr));
                        return 2;
                    }
                    _ => {
                        // the plain optimised build died: let that binary find the run that kills it
                        let cf = std::process::Command::new(fb)
                            .args(["crashfind", &o.prop, "--tier", &o.tier, "--runs", &sub.to_string(), "--seed", &o.seed.to_string(), "--workers", &o.workers.to_string(), "--profile", "fast", "--replays", &o.replays])
                            .output();
                        match cf {
                            Ok(cf) if cf.status.code() == Some(1) => {
                                println!("--- the plain optimised build (profile fast) died; its crash finder reports:");
                                print!("{}", String::from_utf8_lossy(&cf.stdout));
                                cross = Some(obj(vec![("profile", s("fast")), ("runs", i(sub)), ("violations", i(1))]));
                                cross_violation = true;
                            }
                            _ => {
                                eprintln!("simcheck: the fast-profile sub-batch died and the crash finder could not blame a run: harness error");
                                return 2;
                            }
                        }
                    }
                }
            }
            Err(e) => {
                eprintln!("simcheck: cannot run the fast-profile binary: {e}");
                return 2;
            }
        }
    }

    let nviol = if violation.is_some() || cross_violation { 1 } else { 0 };
    write_evidence(o, &b, nviol, &known_hits, cross);
    println!(
        "simcheck: {} runs, {} steps, {:.1}s ({:.0} runs/h), distinct non-trivial {}, states {}, transitions {}, failures seen {}",
        b.runs_done,
        b.stats.steps,
        b.wall,
        b.runs_done as f64 / b.wall.max(1e-9) * 3600.0,
        b.distinct_nontrivial,
        b.stats.abs_states.len(),
        b.stats.transitions.len(),
        b.qfails.len() + b.rfails.len()
    );
    // probes stuck at zero are a defect of the workload: say so
    let (plo, phi) = probe_range(&o.prop);
    for (name, v) in b.stats.named_range("probe.", plo, phi) {
        if v == 0 {
            println!("note: reach probe never hit in this batch: {name}");
        }
    }
    if let Some(p) = violation {
        println!("VIOLATION property={} replay={}", o.prop, p);
        return 1;
    }
    if cross_violation {
        return 1;
    }
    println!("DIGEST property={} seed={} runs={} digest={:016x}", o.prop, o.seed, b.runs_done, b.digest);
    println!("OK property={} held on everything explored", o.prop);
    0
}

fn main() {
    // panics inside the system under test are caught and classified; keep stderr quiet
    std::panic::set_hook(Box::new(|_| {}));
    let args: Vec<String> = std::env::args().skip(1).collect();
    let code = match args.first().map(|s| s.as_str()) {
        Some("run") => match parse_opts(&args[1..]) {
            Ok(o) => cmd_run(&o),
            Err(e) => {
                eprintln!("simcheck: {e}");
                2
            }
        },
        Some("trace") => cmd_trace(&args[1..]),
        Some("crashfind") => match parse_opts(&args[1..]) {
            Ok(o) => {
                gen::THOROUGH.store(o.tier == "thorough", Ordering::Relaxed);
                cmd_crashfind(&o)
            }
            Err(e) => {
                eprintln!("simcheck: {e}");
                2
            }
        },
        Some("replay-inner") => match args.get(1) {
            Some(p) => do_replay_inner(p),
            None => 2,
        },
        Some("seqfind") => cmd_seqfind(&args[1..]),
        Some("enumerate-samplers") => enumerate_samplers(),
        Some("enumerate-fdp") => enumerate_fdp(args.get(1).map(|s| s.as_str()).unwrap_or("q16one")),
        Some("probe-suite-fma") => probe_suite_fma(args.get(1).and_then(|v| v.parse().ok()).unwrap_or(10_000_000)),
        Some("replay") => match args.get(1) {
            Some(p) => do_replay(p),
            None => {
                eprintln!("simcheck: replay needs a file");
                2
            }
        },
        _ => {
            eprintln!("usage: simcheck run <C04|C12|C19> [--tier quick|thorough] … | simcheck replay <file>");
            2
        }
    };
    std::process::exit(code);
}

/// report-only annotation: which events of a Q32E2 history went through the generic-width
/// `PxE2<N>` operand spellings (a pure function of the operands, see `sut::px_width`)
fn px_note(qt: posit_ref::QT, e: &events::Ev) -> String {
    let w = match e {
        events::Ev::Acc(a) => sut::px_width(qt, &a.ops),
        events::Ev::Load(p, _) => sut::px_width(qt, &[*p]),
        _ => None,
    };
    match w {
        Some(n) => format!("    (operands passed as PxE2<{n}>)"),
        None => String::new(),
    }
}
