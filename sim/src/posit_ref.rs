//! Reference posit semantics (oracle). Independent of the crate under test:
//! only bit patterns go in and out.
//!
//! decode: pattern -> exact value m * 2^e
//! round_exact: exact fixed-point sum -> posit pattern, one rounding by the posit rule
//!   (Posit Standard 2022: nearest on the encoding via the (n+1)-bit midpoint, ties to even
//!    encoding, never to zero / NaR: saturates at minpos / maxpos).

use crate::wide::Wide;

#[derive(Clone, Copy, PartialEq, Eq, Debug, Hash, PartialOrd, Ord)]
pub enum QT {
    Q8,
    Q16,
    Q32,
}

impl QT {
    #[allow(dead_code)]
    pub const ALL: [QT; 3] = [QT::Q8, QT::Q16, QT::Q32];
    /// posit width
    pub fn n(self) -> u32 {
        match self {
            QT::Q8 => 8,
            QT::Q16 => 16,
            QT::Q32 => 32,
        }
    }
    pub fn es(self) -> u32 {
        match self {
            QT::Q8 => 0,
            QT::Q16 => 1,
            QT::Q32 => 2,
        }
    }
    /// quire width in bits
    pub fn w(self) -> u32 {
        match self {
            QT::Q8 => 32,
            QT::Q16 => 128,
            QT::Q32 => 512,
        }
    }
    /// quire fraction bits: one unit is 2^-f = minpos^2
    pub fn f(self) -> u32 {
        match self {
            QT::Q8 => 12,
            QT::Q16 => 56,
            QT::Q32 => 240,
        }
    }
    pub fn mask(self) -> u32 {
        if self.n() == 32 {
            u32::MAX
        } else {
            (1u32 << self.n()) - 1
        }
    }
    pub fn nar(self) -> u32 {
        1u32 << (self.n() - 1)
    }
    pub fn maxpos(self) -> u32 {
        self.nar() - 1
    }
    pub fn one(self) -> u32 {
        1u32 << (self.n() - 2)
    }
    pub fn neg_bits(self, p: u32) -> u32 {
        p.wrapping_neg() & self.mask()
    }
    pub fn name(self) -> &'static str {
        match self {
            QT::Q8 => "Q8E0",
            QT::Q16 => "Q16E1",
            QT::Q32 => "Q32E2",
        }
    }
    pub fn pname(self) -> &'static str {
        match self {
            QT::Q8 => "P8E0",
            QT::Q16 => "P16E1",
            QT::Q32 => "P32E2",
        }
    }
    pub fn parse(s: &str) -> Option<QT> {
        match s {
            "Q8E0" | "P8E0" => Some(QT::Q8),
            "Q16E1" | "P16E1" => Some(QT::Q16),
            "Q32E2" | "P32E2" => Some(QT::Q32),
            _ => None,
        }
    }
    /// the NaR image of the quire: 1000…0 in w bits
    pub fn nar_image(self) -> [u64; 8] {
        let mut img = [0u64; 8];
        match self {
            QT::Q8 => img[7] = 0x8000_0000,
            QT::Q16 => img[6] = 1 << 63,
            QT::Q32 => img[0] = 1 << 63,
        }
        img
    }
}

#[derive(Clone, Copy, PartialEq, Eq, Debug)]
pub enum Dec {
    Zero,
    Nar,
    /// value = (-1)^neg * m * 2^e, m > 0 holds the hidden bit
    Val { neg: bool, m: u64, e: i32, scale: i32 },
}

pub fn decode(qt: QT, bits: u32) -> Dec {
    let n = qt.n();
    let es = qt.es();
    let bits = bits & qt.mask();
    if bits == 0 {
        return Dec::Zero;
    }
    if bits == qt.nar() {
        return Dec::Nar;
    }
    let neg = (bits >> (n - 1)) & 1 != 0;
    let mag = if neg { qt.neg_bits(bits) } else { bits };
    let body = mag & (qt.nar() - 1); // n-1 bits
    let r0 = (body >> (n - 2)) & 1;
    let mut rl = 0u32;
    while rl < n - 1 && ((body >> (n - 2 - rl)) & 1) == r0 {
        rl += 1;
    }
    let k: i32 = if r0 == 1 { rl as i32 - 1 } else { -(rl as i32) };
    let rem_len = (n - 1).saturating_sub(rl + 1);
    let rem = if rem_len == 0 { 0 } else { body & ((1u32 << rem_len) - 1) };
    let es_avail = es.min(rem_len);
    let fb = rem_len - es_avail;
    let e_bits = if es_avail == 0 { 0 } else { rem >> fb };
    let e_val = (e_bits << (es - es_avail)) as i32;
    let frac = if fb == 0 { 0 } else { rem & ((1u32 << fb) - 1) };
    let scale = k * (1i32 << es) + e_val;
    let m = (1u64 << fb) | frac as u64;
    Dec::Val { neg, m, e: scale - fb as i32, scale }
}

/// (negative, regime run length, exponent value) of a real non-zero posit pattern
pub fn fields(qt: QT, bits: u32) -> Option<(bool, u32, u32)> {
    let n = qt.n();
    let bits = bits & qt.mask();
    if bits == 0 || bits == qt.nar() {
        return None;
    }
    let neg = (bits >> (n - 1)) & 1 != 0;
    let mag = if neg { qt.neg_bits(bits) } else { bits };
    let body = mag & (qt.nar() - 1);
    let r0 = (body >> (n - 2)) & 1;
    let mut rl = 0u32;
    while rl < n - 1 && ((body >> (n - 2 - rl)) & 1) == r0 {
        rl += 1;
    }
    let e = match decode(qt, bits) {
        Dec::Val { scale, .. } => scale.rem_euclid(1 << qt.es()) as u32,
        _ => 0,
    };
    Some((neg, rl | (r0 << 6), e))
}

/// Exact value of one posit in quire units (2^-F); None for NaR.
pub fn posit_units(qt: QT, p: u32) -> Option<Wide> {
    match decode(qt, p) {
        Dec::Nar => None,
        Dec::Zero => Some(Wide::ZERO),
        Dec::Val { neg, m, e, .. } => {
            let sh = e + qt.f() as i32;
            assert!(sh >= 0, "posit not a multiple of the quire unit");
            let w = Wide::from_u128(m as u128).shl(sh as u32);
            Some(if neg { w.neg() } else { w })
        }
    }
}

/// Exact value of the product a*b in quire units; None if either is NaR.
pub fn product_units(qt: QT, a: u32, b: u32) -> Option<Wide> {
    let da = decode(qt, a);
    let db = decode(qt, b);
    match (da, db) {
        (Dec::Nar, _) | (_, Dec::Nar) => None,
        (Dec::Zero, _) | (_, Dec::Zero) => Some(Wide::ZERO),
        (
            Dec::Val { neg: na, m: ma, e: ea, .. },
            Dec::Val { neg: nb, m: mb, e: eb, .. },
        ) => {
            let m = ma as u128 * mb as u128;
            let sh = ea + eb + qt.f() as i32;
            assert!(sh >= 0, "product not a multiple of the quire unit");
            let w = Wide::from_u128(m).shl(sh as u32);
            Some(if na != nb { w.neg() } else { w })
        }
    }
}

/// The posit equal to exactly 2^s, if there is one.
pub fn pow2_posit(qt: QT, s: i32) -> Option<u32> {
    let sh = s + qt.f() as i32;
    if sh < 0 || sh as u32 >= qt.w() - 1 {
        return None;
    }
    let w = Wide::one_shl(sh as u32);
    let r = round_exact(qt, &w);
    if posit_units(qt, r.posit) == Some(w) {
        Some(r.posit)
    } else {
        None
    }
}

#[derive(Clone, Copy, Debug, Default)]
pub struct Rounded {
    /// result by the posit rule (encoding midpoint)
    pub posit: u32,
    /// result by "nearest representable value"; differs from `posit` only where exponent
    /// bits are cut off by a long regime
    pub by_value: u32,
    /// regime + terminator + es did not fit in n-1 bits
    pub cut_zone: bool,
    pub tie: bool,
    pub sat_max: bool,
    pub sat_min: bool,
    /// regime length including terminator (0 when saturated)
    pub rl: u32,
    /// sticky came only from below the 64 fraction bits following the leading bit
    pub deep_sticky: bool,
}

pub fn round_exact(qt: QT, r: &Wide) -> Rounded {
    let n = qt.n();
    let es = qt.es();
    let f = qt.f();
    let mut out = Rounded::default();
    if r.is_zero() {
        return out;
    }
    let neg = r.is_neg();
    let mag = r.abs();
    let h = mag.top_bit().unwrap();
    let s = h as i32 - f as i32;
    let k = s.div_euclid(1 << es);
    let e = s.rem_euclid(1 << es) as u128;
    let maxpos = qt.maxpos();
    let res: u32;
    let by_value: u32;
    if k >= n as i32 - 2 {
        res = maxpos;
        by_value = maxpos;
        out.sat_max = true;
    } else if -k >= n as i32 - 1 {
        res = 1;
        by_value = 1;
        out.sat_min = true;
    } else {
        let (reg, rl): (u128, u32) = if k >= 0 {
            ((((1u128 << (k + 1)) - 1) << 1), k as u32 + 2)
        } else {
            (1, (-k) as u32 + 1)
        };
        out.rl = rl;
        let mut acc = reg;
        let mut len = rl;
        acc = (acc << es) | e;
        len += es;
        let mut fr: u64 = 0;
        for i in 0..64u32 {
            let b = if h >= 1 + i { mag.bit(h - 1 - i) } else { false };
            fr = (fr << 1) | b as u64;
        }
        acc = (acc << 64) | fr as u128;
        len += 64;
        let deep = if h >= 64 { mag.any_below(h - 64) } else { false };
        let u = (acc >> (len - (n - 1))) as u32;
        let g = (acc >> (len - n)) & 1 != 0;
        let near = (acc & ((1u128 << (len - n)) - 1)) != 0;
        let t = near || deep;
        out.deep_sticky = g && deep && !near;
        out.tie = g && !t;
        let mut v = u + (g && (t || (u & 1) != 0)) as u32;
        if v == 0 {
            v = 1;
        }
        if v > maxpos {
            v = maxpos;
        }
        res = v;
        out.cut_zone = rl + es > n - 1;
        if out.cut_zone {
            // value-nearest between encodings u and u+1 (both real posits here)
            let lo = u.max(1);
            let hi = (u + 1).min(maxpos);
            if lo == hi {
                by_value = lo;
            } else {
                let vlo = posit_units(qt, lo).unwrap();
                let vhi = posit_units(qt, hi).unwrap();
                let dlo = mag.sub(&vlo);
                let dhi = vhi.sub(&mag);
                debug_assert!(!dlo.is_neg() && !dhi.is_neg());
                by_value = match dlo.cmp_signed(&dhi) {
                    std::cmp::Ordering::Less => lo,
                    std::cmp::Ordering::Greater => hi,
                    std::cmp::Ordering::Equal => {
                        if lo & 1 == 0 {
                            lo
                        } else {
                            hi
                        }
                    }
                };
            }
        } else {
            by_value = res;
        }
    }
    out.posit = if neg { qt.neg_bits(res) } else { res };
    out.by_value = if neg { qt.neg_bits(by_value) } else { by_value };
    out
}

#[cfg(test)]
mod tests {
    use super::*;

    fn val(qt: QT, p: u32) -> f64 {
        match decode(qt, p) {
            Dec::Zero => 0.0,
            Dec::Nar => f64::NAN,
            Dec::Val { neg, m, e, .. } => {
                let v = m as f64 * (e as f64).exp2();
                if neg {
                    -v
                } else {
                    v
                }
            }
        }
    }

    #[test]
    fn decode_known() {
        assert_eq!(val(QT::Q8, 0x40), 1.0);
        assert_eq!(val(QT::Q8, 0x7F), 64.0);
        assert_eq!(val(QT::Q8, 0x01), 1.0 / 64.0);
        assert_eq!(val(QT::Q8, 0xC0), -1.0);
        assert_eq!(val(QT::Q8, 0x60), 2.0);
        assert_eq!(val(QT::Q8, 0x50), 1.5);
        assert_eq!(val(QT::Q16, 0x4000), 1.0);
        assert_eq!(val(QT::Q16, 0x7FFF), 2f64.powi(28));
        assert_eq!(val(QT::Q16, 0x0001), 2f64.powi(-28));
        assert_eq!(val(QT::Q16, 0x5000), 2.0);
        assert_eq!(val(QT::Q16, 0x4800), 1.5);
        assert_eq!(val(QT::Q32, 0x4000_0000), 1.0);
        assert_eq!(val(QT::Q32, 0x7FFF_FFFF), 2f64.powi(120));
        assert_eq!(val(QT::Q32, 0x0000_0001), 2f64.powi(-120));
        assert_eq!(val(QT::Q32, 0x4800_0000), 2.0);
        assert_eq!(val(QT::Q32, 0x4400_0000), 1.5);
        assert_eq!(val(QT::Q32, 0x7FFF_FFFE), 2f64.powi(116));
        assert_eq!(val(QT::Q32, 0x0000_0002), 2f64.powi(-116));
        assert_eq!(val(QT::Q32, 0x0000_0003), 2f64.powi(-114));
    }

    /// every posit, loaded exactly, rounds back to itself; posit patterns are monotone in value
    #[test]
    fn round_trip_all_small() {
        for qt in [QT::Q8, QT::Q16] {
            let mut prev: Option<Wide> = None;
            // walk patterns in signed order: nar+1 .. maxpos
            let n = qt.n();
            let lo = -(1i64 << (n - 1)) + 1;
            let hi = (1i64 << (n - 1)) - 1;
            for sp in lo..=hi {
                let p = (sp as u32) & qt.mask();
                let u = posit_units(qt, p).unwrap();
                let r = round_exact(qt, &u);
                assert_eq!(r.posit, p, "{:?} {:#x}", qt, p);
                assert_eq!(r.by_value, p);
                if let Some(pv) = prev {
                    assert_eq!(pv.cmp_signed(&u), std::cmp::Ordering::Less);
                }
                prev = Some(u);
            }
        }
    }

    #[test]
    fn round_trip_p32_sample() {
        let qt = QT::Q32;
        let mut x = 12345u64;
        for i in 0..2_000_00u32 {
            let p = if i < 70000 { i } else { crate::prng::splitmix64(&mut x) as u32 };
            for p in [p, p.wrapping_neg(), 0x7FFF_FFFF - (p & 0xFFFF), 0x4000_0000 ^ (p & 0xFFFF)] {
                if p == 0x8000_0000 {
                    continue;
                }
                let u = posit_units(qt, p).unwrap();
                let r = round_exact(qt, &u);
                assert_eq!(r.posit, p, "{:#x}", p);
                assert_eq!(r.by_value, p, "{:#x}", p);
            }
        }
    }

    /// midpoints between adjacent P8E0 posits: ties go to the even encoding; just above goes up
    #[test]
    fn ties_p8() {
        let qt = QT::Q8;
        for p in 1u32..0x7F {
            let a = posit_units(qt, p).unwrap();
            let b = posit_units(qt, p + 1).unwrap();
            let sum = a.add(&b); // 2*mid
            if sum.bit(0) {
                continue; // midpoint not representable in quire units
            }
            // mid = sum/2
            let mut mid = Wide::ZERO;
            for i in 1..200 {
                if sum.bit(i) {
                    mid = mid.add(&Wide::one_shl(i - 1));
                }
            }
            let r = round_exact(qt, &mid);
            let even = if p & 1 == 0 { p } else { p + 1 };
            assert!(r.tie);
            assert_eq!(r.posit, even, "tie at {:#x}", p);
            let up = round_exact(qt, &mid.add(&Wide::from_u128(1)));
            assert_eq!(up.posit, p + 1);
            let dn = round_exact(qt, &mid.sub(&Wide::from_u128(1)));
            assert_eq!(dn.posit, p);
            let n = round_exact(qt, &mid.neg());
            assert_eq!(n.posit, qt.neg_bits(even));
        }
    }

    /// Independent cross-check of the rounding oracle: for random exact sums the posit-rule result
    /// r must be a value-nearest posit (no other posit strictly nearer), must be on the correct
    /// side, and where two neighbours are equally near the even encoding must win. Outside the
    /// cut-off zone the encoding midpoint IS the arithmetic midpoint, so the two agree; inside it
    /// only bracketing is asserted. Uses exact Wide arithmetic on decode() values only.
    #[test]
    fn round_exact_is_nearest_outside_cut_zone() {
        let mut x = 0xC0FFEEu64;
        let mut checked = 0u32;
        for qt in QT::ALL {
            for _ in 0..60_000 {
                let r1 = crate::prng::splitmix64(&mut x);
                let r2 = crate::prng::splitmix64(&mut x);
                let top = (r1 % (qt.w() as u64 - 2)) as u32;
                // a random magnitude with leading bit `top`, random bits in the 64 below, sometimes a far bit
                let mut m = Wide::one_shl(top);
                let frac = r2 >> (r1 >> 32) % 64;
                if top >= 64 {
                    m = m.add(&Wide::from_u128(frac as u128).shl(top - 64));
                } else if top > 0 {
                    m = m.add(&Wide::from_u128((frac >> (64 - top)) as u128));
                }
                if r1 & 1 == 1 && top > 70 {
                    m = m.add(&Wide::one_shl(((r2 >> 7) % (top as u64 - 65)) as u32));
                }
                let neg = r1 & 2 == 2;
                let v = if neg { m.neg() } else { m };
                let rd = round_exact(qt, &v);
                let p = if neg { qt.neg_bits(rd.posit) } else { rd.posit };
                assert!(p >= 1 && p <= qt.maxpos());
                let vp = posit_units(qt, p).unwrap();
                let d = if vp.cmp_signed(&m) == std::cmp::Ordering::Greater { vp.sub(&m) } else { m.sub(&vp) };
                // bracketing: m lies between the result and its neighbour on the other side
                if vp.cmp_signed(&m) == std::cmp::Ordering::Greater && p > 1 {
                    let lo = posit_units(qt, p - 1).unwrap();
                    assert!(lo.cmp_signed(&m) != std::cmp::Ordering::Greater, "not bracketed from below");
                }
                if vp.cmp_signed(&m) == std::cmp::Ordering::Less && p < qt.maxpos() {
                    let hi = posit_units(qt, p + 1).unwrap();
                    assert!(hi.cmp_signed(&m) != std::cmp::Ordering::Less, "not bracketed from above");
                }
                if rd.cut_zone || rd.sat_max || rd.sat_min {
                    continue;
                }
                for q in [p.wrapping_sub(1), p + 1] {
                    if q < 1 || q > qt.maxpos() {
                        continue;
                    }
                    let vq = posit_units(qt, q).unwrap();
                    let dq = if vq.cmp_signed(&m) == std::cmp::Ordering::Greater { vq.sub(&m) } else { m.sub(&vq) };
                    match dq.cmp_signed(&d) {
                        std::cmp::Ordering::Less => panic!("{:?}: neighbour {:#x} is nearer than {:#x} to {}", qt, q, p, m.hex()),
                        std::cmp::Ordering::Equal => assert!(p & 1 == 0, "{:?}: tie not to even: {:#x} vs {:#x}", qt, p, q),
                        _ => {}
                    }
                }
                checked += 1;
            }
        }
        assert!(checked > 50_000);
    }

    #[test]
    fn saturation() {
        for qt in QT::ALL {
            let one = Wide::from_u128(1);
            assert_eq!(round_exact(qt, &one).posit, 1); // minpos^2 rounds up to minpos
            assert_eq!(round_exact(qt, &one.neg()).posit, qt.mask());
            let big = Wide::one_shl(qt.w() - 2);
            assert_eq!(round_exact(qt, &big).posit, qt.maxpos());
            assert_eq!(round_exact(qt, &big.neg()).posit, qt.neg_bits(qt.maxpos()));
        }
    }
}
