//! Shrinking of failing quire histories. A candidate is accepted only if it is still a
//! *valid* history (generator preconditions re-checked by the runner) and still fails the
//! *same clause*.

use crate::events::{Acc, Case, Ev};
use crate::posit_ref::QT;
use crate::quire::{run_case, Clause, Failure, Mode, Outcome};
use crate::stats::Stats;
use crate::sut::Sp;

pub struct Shrinker {
    target: Clause,
    mode: Mode,
    pub evals: u64,
    budget: u64,
    scratch: Stats,
}

impl Shrinker {
    pub fn new(target: Clause, mode: Mode) -> Self {
        Shrinker { target, mode, evals: 0, budget: 20_000, scratch: Stats::new() }
    }

    fn fails(&mut self, c: &Case) -> Option<Failure> {
        if self.evals >= self.budget {
            return None;
        }
        self.evals += 1;
        match run_case(c, self.mode, &mut self.scratch).0 {
            Outcome::Fail(f) if f.clause == self.target => Some(f),
            _ => None,
        }
    }

    pub fn minimise(&mut self, case: &Case) -> Option<(Case, Failure)> {
        let mut best = case.clone();
        let mut bf = self.fails(&best)?;
        // 1. nothing after the failing step matters
        if bf.step + 1 < best.events.len() {
            let mut c = best.clone();
            c.events.truncate(bf.step + 1);
            if let Some(f) = self.fails(&c) {
                best = c;
                bf = f;
            }
        }
        loop {
            let before = best.clone();
            self.pass_expand_compound(&mut best, &mut bf);
            self.pass_drop_order_terms(&mut best, &mut bf);
            self.pass_drop_chunks(&mut best, &mut bf);
            self.pass_simplify_spelling(&mut best, &mut bf);
            self.pass_operands(&mut best, &mut bf);
            self.pass_images(&mut best, &mut bf);
            self.pass_matdot(&mut best, &mut bf);
            if best == before || self.evals >= self.budget {
                break;
            }
        }
        if best.init_via != 0 {
            let mut c = best.clone();
            c.init_via = 0;
            if let Some(f) = self.fails(&c) {
                best = c;
                bf = f;
            }
        }
        Some((best, bf))
    }

    fn accept(&mut self, cand: Case, best: &mut Case, bf: &mut Failure) -> bool {
        if let Some(f) = self.fails(&cand) {
            let mut cand = cand;
            if f.step + 1 < cand.events.len() {
                cand.events.truncate(f.step + 1);
            }
            *best = cand;
            *bf = f;
            true
        } else {
            false
        }
    }

    /// Remove runs of events (delta debugging, halving chunk size). Order events keep their
    /// `k`; a candidate that cuts into an order segment is rejected by the validity check, so
    /// also try the variant where k is reduced by the number of removed segment events.
    fn pass_drop_chunks(&mut self, best: &mut Case, bf: &mut Failure) {
        let mut chunk = (best.events.len() / 2).max(1);
        loop {
            let mut i = 0;
            while i < best.events.len() {
                let end = (i + chunk).min(best.events.len());
                let mut c = best.clone();
                c.events.drain(i..end);
                if self.accept(c, best, bf) {
                    continue;
                }
                // variant: shrink the k of a following order event accordingly (only sound if the
                // alt list is adjusted too; that is done by pass_drop_order_terms) — skip
                i += 1;
            }
            if chunk == 1 {
                break;
            }
            chunk = (chunk / 2).max(1);
        }
    }

    fn expand(a: &Acc) -> Vec<Acc> {
        a.sp
            .terms(&a.ops)
            .into_iter()
            .map(|(x, y)| match y {
                Some(y) => Acc { sp: Sp::Prod, sub: a.sub, ops: vec![x, y] },
                None => Acc { sp: Sp::One, sub: a.sub, ops: vec![x] },
            })
            .collect()
    }

    /// Replace compound spellings by their plain expansion (whole case at once, then one by one).
    fn pass_expand_compound(&mut self, best: &mut Case, bf: &mut Failure) {
        // inside order alts first (does not change indices)
        for i in 0..best.events.len() {
            if let Ev::Order(k, alt) = &best.events[i] {
                if alt.iter().any(|a| a.sp.is_compound()) {
                    let mut c = best.clone();
                    let na: Vec<Acc> = alt.iter().flat_map(Self::expand).collect();
                    c.events[i] = Ev::Order(*k, na);
                    self.accept(c, best, bf);
                }
            }
            if i >= best.events.len() {
                break;
            }
        }
        // main-line compound events: expansion changes the number of events, so every later
        // order event whose segment contains it must grow its k
        let mut i = 0;
        while i < best.events.len() {
            let is_comp = matches!(&best.events[i], Ev::Acc(a) if a.sp.is_compound());
            if is_comp {
                let a = match &best.events[i] {
                    Ev::Acc(a) => a.clone(),
                    _ => unreachable!(),
                };
                let ex = Self::expand(&a);
                let extra = ex.len() - 1;
                let mut c = best.clone();
                c.events.splice(i..i + 1, ex.into_iter().map(Ev::Acc));
                // fix up the next order event if its segment reached back to i
                let mut j = i + 1 + extra;
                while j < c.events.len() {
                    match &c.events[j] {
                        Ev::Acc(_) => j += 1,
                        Ev::Order(k, alt) => {
                            if j - k <= i + extra {
                                c.events[j] = Ev::Order(k + extra, alt.clone());
                            }
                            break;
                        }
                        _ => break,
                    }
                }
                if self.accept(c, best, bf) {
                    i += 1 + extra;
                    continue;
                }
            }
            i += 1;
        }
    }

    /// For an order event: drop one plain term from the segment and the equal term from alt.
    fn pass_drop_order_terms(&mut self, best: &mut Case, bf: &mut Failure) {
        let qt = best.qt;
        let mut j = 0;
        while j < best.events.len() {
            let (k, alt) = match &best.events[j] {
                Ev::Order(k, alt) => (*k, alt.clone()),
                _ => {
                    j += 1;
                    continue;
                }
            };
            let mut progressed = false;
            'seg: for s in (j - k)..j {
                let a = match &best.events[s] {
                    Ev::Acc(a) if !a.sp.is_compound() => a.clone(),
                    _ => continue,
                };
                let ta = crate::quire::acc_terms(qt, &a);
                for (ai, b) in alt.iter().enumerate() {
                    if b.sp.is_compound() {
                        continue;
                    }
                    if crate::quire::acc_terms(qt, b) == ta {
                        let mut c = best.clone();
                        let mut nalt = alt.clone();
                        nalt.remove(ai);
                        c.events[j] = Ev::Order(k - 1, nalt);
                        c.events.remove(s);
                        if k - 1 >= 1 && self.accept(c, best, bf) {
                            progressed = true;
                            break 'seg;
                        }
                    }
                }
            }
            if !progressed {
                j += 1;
            }
        }
    }

    fn pass_simplify_spelling(&mut self, best: &mut Case, bf: &mut Failure) {
        for i in 0..best.events.len() {
            if i >= best.events.len() {
                break;
            }
            let cand_ev = match &best.events[i] {
                Ev::Acc(a) if matches!(a.sp, Sp::ProdM | Sp::ProdT | Sp::Arr1) => {
                    Some(Ev::Acc(Acc { sp: Sp::Prod, sub: a.sub, ops: a.ops.clone() }))
                }
                Ev::Clear(v) if *v != 0 => Some(Ev::Clear(0)),
                Ev::Neg(v) if *v != 0 => Some(Ev::Neg(0)),
                Ev::Restart(v) if *v != 0 => Some(Ev::Restart(0)),
                Ev::Load(p, v) if *v != 0 => Some(Ev::Load(*p, 0)),
                Ev::Order(k, alt) if alt.iter().any(|a| matches!(a.sp, Sp::ProdM | Sp::ProdT | Sp::Arr1)) => {
                    let na = alt
                        .iter()
                        .map(|a| {
                            if matches!(a.sp, Sp::ProdM | Sp::ProdT | Sp::Arr1) {
                                Acc { sp: Sp::Prod, sub: a.sub, ops: a.ops.clone() }
                            } else {
                                a.clone()
                            }
                        })
                        .collect();
                    Some(Ev::Order(*k, na))
                }
                _ => None,
            };
            if let Some(e) = cand_ev {
                let mut c = best.clone();
                c.events[i] = e;
                self.accept(c, best, bf);
            }
        }
    }

    fn subst(case: &Case, old: u32, new: u32) -> Case {
        let mut c = case.clone();
        let fix = |a: &mut Acc| {
            for o in a.ops.iter_mut() {
                if *o == old {
                    *o = new;
                }
            }
        };
        for e in c.events.iter_mut() {
            match e {
                Ev::Acc(a) => fix(a),
                Ev::Order(_, alt) => alt.iter_mut().for_each(fix),
                Ev::Load(p, _) => {
                    if *p == old {
                        *p = new;
                    }
                }
                Ev::MatDot { a, b, .. } => {
                    for o in a.iter_mut().chain(b.iter_mut()) {
                        if *o == old {
                            *o = new;
                        }
                    }
                }
                _ => {}
            }
        }
        c
    }

    fn operand_values(case: &Case) -> Vec<u32> {
        let mut v = Vec::new();
        for e in &case.events {
            match e {
                Ev::Acc(a) => v.extend(&a.ops),
                Ev::Load(p, _) => v.push(*p),
                Ev::MatDot { a, b, .. } => {
                    v.extend(a);
                    v.extend(b);
                }
                _ => {}
            }
        }
        v.sort();
        v.dedup();
        v
    }

    /// Simplify operand values (global substitution, so order segments stay consistent):
    /// toward ONE, toward positive, toward fewer set bits.
    fn pass_operands(&mut self, best: &mut Case, bf: &mut Failure) {
        let qt: QT = best.qt;
        for old in Self::operand_values(best) {
            if old == qt.nar() || old == qt.one() {
                continue;
            }
            let mut cur = old;
            let mut tries: Vec<u32> = vec![qt.one()];
            if cur >> (qt.n() - 1) != 0 {
                tries.push(qt.neg_bits(cur));
            }
            for t in tries {
                if t == cur {
                    continue;
                }
                let c = Self::subst(best, cur, t);
                if self.accept(c, best, bf) {
                    cur = t;
                    if cur == qt.one() {
                        break;
                    }
                }
            }
            if cur == qt.one() {
                continue;
            }
            // clear low set bits one at a time
            for b in 0..qt.n() - 1 {
                if (cur >> b) & 1 == 0 {
                    continue;
                }
                let t = cur & !(1u32 << b);
                if t == 0 || t == qt.nar() {
                    continue;
                }
                let c = Self::subst(best, cur, t);
                if self.accept(c, best, bf) {
                    cur = t;
                }
            }
        }
    }

    /// Shrink a matrix-product event: one row × one column, then fewer inner terms.
    fn pass_matdot(&mut self, best: &mut Case, bf: &mut Failure) {
        for i in 0..best.events.len() {
            if i >= best.events.len() {
                break;
            }
            let (r, k, c, la, lb, a, b) = match &best.events[i] {
                Ev::MatDot { r, k, c, la, lb, a, b } => (*r, *k, *c, *la, *lb, a.clone(), b.clone()),
                _ => continue,
            };
            // simpler storage first
            for (nla, nlb) in [(0u8, 0u8), (0, lb), (la, 0)] {
                if (nla, nlb) != (la, lb) {
                    let mut cand = best.clone();
                    cand.events[i] = Ev::MatDot { r, k, c, la: nla, lb: nlb, a: a.clone(), b: b.clone() };
                    if self.accept(cand, best, bf) {
                        break;
                    }
                }
            }
            if i >= best.events.len() {
                break;
            }
            let (la, lb) = match &best.events[i] {
                Ev::MatDot { la, lb, .. } => (*la, *lb),
                _ => continue,
            };
            if r > 1 || c > 1 {
                'outer: for ri in 0..r {
                    for cj in 0..c {
                        let na: Vec<u32> = a[ri * k..(ri + 1) * k].to_vec();
                        let nb: Vec<u32> = (0..k).map(|l| b[l * c + cj]).collect();
                        let mut cand = best.clone();
                        cand.events[i] = Ev::MatDot { r: 1, k, c: 1, la, lb, a: na, b: nb };
                        if self.accept(cand, best, bf) {
                            break 'outer;
                        }
                    }
                }
            }
            if i >= best.events.len() {
                break;
            }
            if let Ev::MatDot { r: 1, k, c: 1, la, lb, a, b } = best.events[i].clone() {
                let (mut k, mut a, mut b) = (k, a, b);
                let mut l = 0;
                while k > 1 && l < k {
                    let mut na = a.clone();
                    let mut nb = b.clone();
                    na.remove(l);
                    nb.remove(l);
                    let mut cand = best.clone();
                    cand.events[i] = Ev::MatDot { r: 1, k: k - 1, c: 1, la, lb, a: na.clone(), b: nb.clone() };
                    if self.accept(cand, best, bf) {
                        k -= 1;
                        a = na;
                        b = nb;
                    } else {
                        l += 1;
                    }
                    if i >= best.events.len() {
                        return;
                    }
                }
            }
        }
    }

    fn pass_images(&mut self, best: &mut Case, bf: &mut Failure) {
        for i in 0..best.events.len() {
            if i >= best.events.len() {
                break;
            }
            let img = match &best.events[i] {
                Ev::Inject(img) => *img,
                _ => continue,
            };
            let mut cur = img;
            for l in 0..8 {
                if cur[l] == 0 {
                    continue;
                }
                // whole limb to zero, to all ones, then bit by bit
                for t in [0u64, u64::MAX] {
                    let mut n = cur;
                    n[l] = t;
                    if n == cur {
                        continue;
                    }
                    let mut c = best.clone();
                    c.events[i] = Ev::Inject(n);
                    if self.accept(c, best, bf) {
                        cur = n;
                        break;
                    }
                }
                if i >= best.events.len() {
                    return;
                }
                if cur[l] != 0 && cur[l] != u64::MAX {
                    for b in 0..64 {
                        if (cur[l] >> b) & 1 == 0 {
                            continue;
                        }
                        let mut n = cur;
                        n[l] &= !(1u64 << b);
                        let mut c = best.clone();
                        c.events[i] = Ev::Inject(n);
                        if self.accept(c, best, bf) {
                            cur = n;
                        }
                        if i >= best.events.len() {
                            return;
                        }
                    }
                }
            }
        }
    }
}
