#!/bin/bash
# Determinism proof for the simulator (DESIGN §3.6): for N seeds and each property, the batch
# digest (hash of every event and every observed bit of every run) must be identical
#   - between two separate processes,
#   - between 1 worker and 16 workers,
#   - between the overflow-checked build and the plain optimised build.
# usage: tools/determinism.sh [N=200] [RUNS=3000]
set -u
cd "$(dirname "$0")/.." || exit 2
N="${1:-200}"; RUNS="${2:-3000}"
export CARGO_NET_OFFLINE=true
(cd sim && cargo build --offline --release >/dev/null 2>&1 && cargo build --offline --profile fast >/dev/null 2>&1) || { echo "build failed"; exit 2; }
A=.build/release/simcheck; F=.build/fast/simcheck
one() { # prop seed
    local p=$1 s=$2
    local d1 d2 d3 d4
    d1=$($A run $p --runs $RUNS --seed $s --workers 1  --digest-only | grep ^DIGEST)
    d2=$($A run $p --runs $RUNS --seed $s --workers 16 --digest-only | grep ^DIGEST)
    d3=$($A run $p --runs $RUNS --seed $s --workers 5  --digest-only | grep ^DIGEST)
    d4=$($F run $p --runs $RUNS --seed $s --workers 16 --profile fast --digest-only | grep ^DIGEST)
    if [ "$d1" = "$d2" ] && [ "$d1" = "$d3" ] && [ "$d1" = "$d4" ] && [ -n "$d1" ]; then echo "same $p $s"; else echo "DIFF $p $s :: $d1 | $d2 | $d3 | $d4"; fi
}
export -f one; export A F RUNS
for p in C04 C12 C19; do for s in $(seq 1 "$N"); do echo "$p $s"; done; done | xargs -P 8 -L 1 bash -c 'one $0 $1' > .build/determinism.log
same=$(grep -c ^same .build/determinism.log); diff=$(grep -c ^DIFF .build/determinism.log)
echo "determinism: $same (property,seed) pairs identical across 2 processes x {1,5,16} workers x {checked,fast} builds; $diff differ"
grep ^DIFF .build/determinism.log | head
[ "$diff" = 0 ]
