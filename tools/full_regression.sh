#!/bin/bash
# Everything that validates the machinery, in one go (about 25 min on 16 cores; /repo is patched
# transiently by the seeded / sensitivity steps and restored after each patch):
#   oracle unit tests, the three quick checks on the unchanged tree, determinism, deliberate-patch
#   expectations, seeded changes. The mutation sweep (tools/mutation_sweep.py, ~3 h) is separate.
set -u
cd "$(dirname "$0")/.." || exit 2
[ -z "$(git -C /repo status --porcelain)" ] || { echo "/repo is not clean"; exit 2; }
fail=0
echo "== selftest"; tools/selftest.sh | tail -1
for p in C04 C12 C19; do echo "== $p quick"; ./check $p quick | tail -1 || fail=1; done
echo "== determinism"; tools/determinism.sh 20 2000 || fail=1
echo "== sensitivity"; tools/sensitivity.sh | tail -1 || fail=1
echo "== seeded"; tools/run_seeded.sh quick | tail -1
echo "== (2 seeded misses are expected and documented: r2c-m2, r2d-m4)"
for p in C04 C12 C19; do ./check $p quick >/dev/null; done   # leave default-seed evidence behind
find replays -name '*.replay' -delete
[ $fail = 0 ] && echo "full regression: ok" || { echo "full regression: FAILED"; exit 1; }
