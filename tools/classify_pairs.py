#!/usr/bin/env python3
"""Classify surviving mutant pairs with the exhaustive single-operation enumeration
(`simcheck enumerate-fdp`, an analysis aid, not a check): bad=0 -> the pair is equivalent to the
original for every operand; bad>0 -> the pair changes behaviour and the quick check missed it."""
import json, os, subprocess, sys, random
REPO=os.environ.get('MS_REPO','/repo'); VERIF=os.environ.get('MS_VERIF','/verif')
P=os.path.join(VERIF,'tools','mutation_sweep_pairs.jsonl')
rows=[json.loads(l) for l in open(P)]
MODE={'q16.fdp_one':'q16one','q16.fdp':'q16prod','q32.fdp_one':'q32one','q32.fdp':'q32prod'}
cap32=int(os.environ.get('CAP32','40'))
rnd=random.Random(7)
todo=[r for r in rows if r['status']=='survived' and 'enumeration' not in r and r['func'] in MODE]
q32=[r for r in todo if r['func']=='q32.fdp_one']; rnd.shuffle(q32)
todo=[r for r in todo if r['func']!='q32.fdp_one']+q32[:cap32]
print(len(todo),'to classify')
try:
    for n,r in enumerate(todo):
        path=os.path.join(REPO,r['file']); orig=open(path).read(); lines=orig.split('\n')
        for k in ('a','b'):
            cur=lines[r[k]['line']-1]; lines[r[k]['line']-1]=cur[:len(cur)-len(cur.lstrip())]+r[k]['after']
        open(path,'w').write('\n'.join(lines))
        subprocess.run(f'cd {VERIF}/sim && cargo build --offline --release >/dev/null 2>&1',shell=True)
        e=subprocess.run([f'{VERIF}/.build/release/simcheck','enumerate-fdp',MODE[r['func']]],capture_output=True,text=True)
        open(path,'w').write(orig)
        out=[l for l in e.stdout.split('\n') if l.strip()]
        r['enumeration']=out[0] if out else 'no output'; r['enumeration_examples']=out[1:3]
        print(n,r['func'],r['a']['line'],r['a']['desc'],'+',r['b']['line'],r['b']['desc'],'->',r['enumeration'],out[1:2],flush=True)
finally:
    subprocess.run(f'git -C {REPO} checkout -- .',shell=True)
    open(P,'w').write(''.join(json.dumps(r)+'\n' for r in rows))
