#!/bin/bash
# Apply every kept seeded change to /repo in turn, run its property's check, restore /repo.
# usage: tools/run_seeded.sh [quick|thorough] [id-filter]   -> table of caught / missed; writes seeded/RESULTS.txt
set -u
cd "$(dirname "$0")/.." || exit 2
tier="${1:-quick}"; filt="${2:-}"
[ -z "$(git -C /repo status --porcelain)" ] || { echo "/repo is not clean"; exit 2; }
trap 'git -C /repo checkout -- . 2>/dev/null' EXIT
caught=0; missed=0; out=seeded/RESULTS.txt; [ -n "$filt" ] && out=/dev/null
: > "$out"
for d in seeded/*/; do
    id=$(basename "$d"); case "$id" in *"$filt"*) ;; *) continue ;; esac
    prop=$(python3 -c "import json;print(json.load(open('$d/meta.json'))['property'])")
    git -C /repo apply "$PWD/$d/patch.diff" || { echo "APPLY-FAIL $id"; continue; }
    res=$(./check "$prop" "$tier" 2>&1); code=$?
    git -C /repo checkout -- .
    if [ $code = 1 ] && echo "$res" | grep -q "^VIOLATION property=$prop "; then
        line="caught $id $prop $tier :: $(echo "$res" | grep '^violation:' | head -1 | cut -c1-160)"; caught=$((caught+1))
    else
        line="MISSED $id $prop $tier (exit $code)"; missed=$((missed+1))
    fi
    echo "$line"; echo "$line" >> "$out"
done
rm -f replays/*.replay
echo "seeded: $caught caught, $missed missed ($tier tier)" | tee -a "$out"
