#!/usr/bin/env python3
"""Generate the deliberate property-breaking (and neutral) patches used by tools/sensitivity.sh.
Each mutant is a textual replacement in /repo; the diff is written to tools/mutants/<name>.diff and
/repo is restored immediately. expect = property id that must report a VIOLATION, or 'neutral'."""
import subprocess, sys, os, json
REPO='/repo'; OUT='/verif/tools/mutants'
M=[]
def m(name, expect, file, old, new, count=1, note=''):
    M.append(dict(name=name, expect=expect, file=file, old=old, new=new, count=count, note=note))

# ---------------- C04
m('q32_drop_carry_limb3','C04','src/quire32/ops.rs',
  "            let rcarryb3 = (b1 as i8) + (b2 as i8) + (rcarry_z as i8);",
  "            let rcarryb3 = (b1 as i8) + (b2 as i8) + ((rcarry_z && i != 3) as i8);", count=2,
  note='carry from limb 4 into limb 3 dropped in the 512-bit ripple add')
m('q32_to_posit_drop_lower_sticky','C04','src/quire32/convert.rs',
  """                for (_, w) in j {
                    if *w > 0 {
                        bits_more = true;
                        break;
                    }
                }
                break;
            }
        }

        //default dot is between bit 271 and 272, extreme left bit is bit 0. Last right bit is bit 511.
        //Equations derived from quire32_mult  last_pos = 271 - (k_a<<2) - exp_a and first_pos = last_pos - frac_len
        let k_a = ((271 - no_lz) >> 2) as i8;
        let mut exp_a = 271 - (no_lz as i32) - ((k_a << 2) as i32);

        let (regime, reg_sa, reg_a) = P32E2::calculate_regime(k_a);""",
  """                for (_, w) in j.skip(1) {
                    if *w > 0 {
                        bits_more = true;
                        break;
                    }
                }
                break;
            }
        }

        //default dot is between bit 271 and 272, extreme left bit is bit 0. Last right bit is bit 511.
        //Equations derived from quire32_mult  last_pos = 271 - (k_a<<2) - exp_a and first_pos = last_pos - frac_len
        let k_a = ((271 - no_lz) >> 2) as i8;
        let mut exp_a = 271 - (no_lz as i32) - ((k_a << 2) as i32);

        let (regime, reg_sa, reg_a) = P32E2::calculate_regime(k_a);""",
  note='Q32E2::to_posit ignores one lower limb when computing the sticky bit')
m('q32_fdp_no_nar_sticky','C04','src/quire32/ops.rs',
  "    if q.is_nar() || ui_a == 0x_8000_0000 || ui_b == 0x_8000_0000 {",
  "    if ui_a == 0x_8000_0000 || ui_b == 0x_8000_0000 {",
  note='fdp no longer keeps a NaR quire NaR')
m('q16_fdp_one_sub_adds','C04','src/quire16/ops.rs',
  """    if !(sign_a ^ plus) {
        u_z2 = u_z2.wrapping_neg();
    }""",
  """    if !(sign_a ^ true) {
        u_z2 = u_z2.wrapping_neg();
    }""",
  note='Q16E1 `-= p` adds')
m('macro_t2_uses_b_twice','C04','src/macros.rs',
  """                *self += (rhs.0, (rhs.1).0);
                *self += (rhs.0, (rhs.1).1);
            }
        }

        impl ops::AddAssign<($posit, ($posit, $posit, $posit))> for $quire {""",
  """                *self += (rhs.0, (rhs.1).0);
                *self += (rhs.0, (rhs.1).0);
            }
        }

        impl ops::AddAssign<($posit, ($posit, $posit, $posit))> for $quire {""",
  note='(a,(b,c)) spelling accumulates a*b twice')
m('macro_array_skips_last','C04','src/macros.rs',
  """            fn add_assign(&mut self, rhs: ($posit, [$posit; $i])) {
                for p in &rhs.1 {
                    *self += (rhs.0, *p);
                }""",
  """            fn add_assign(&mut self, rhs: ($posit, [$posit; $i])) {
                for p in rhs.1.iter().take(3) {
                    *self += (rhs.0, *p);
                }""",
  count=2, note='array spelling stops after 3 elements (wrong only for [_;4])')
m('q8_is_zero_low_bits','C04','src/quire8.rs',
  "        self.to_bits() == 0\n",
  "        self.to_bits() >> 2 == 0\n",
  note='Q8E0::is_zero ignores the two lowest bits')
m('q16_to_posit_tie_up','C04','src/quire16/convert.rs',
  "                u_a += (u_a & 1) | (bits_more as u16);",
  "                u_a += 1;",
  note='Q16E1::to_posit rounds ties up instead of to even')
m('q32_neg_term_twos_complement_off','C04','src/quire32/ops.rs',
  """            if *u > 0 {
                *u = u.wrapping_neg();
                for w in j {
                    *w = !*w;
                }
                break;
            }
        }
    }

    //Addition
    let mut u_z: [u64; 8] = [0; 8];
    let mut rcarry_z = false;
    for (i, (u, (u1, u2))) in (0..8)
        .zip(u_z.iter_mut().zip(u_z1.iter().zip(u_z2.iter())))
        .rev()
    {
        let b1 = (*u1 & 0x1) != 0;
        let b2 = (*u2 & 0x1) != 0;
        if i == 7 {
            let rcarryb = b1 & b2;
            *u = (*u1 >> 1) + (*u2 >> 1) + (rcarryb as u64);
            rcarry_z = *u >> 63 != 0;
            *u = (*u << 1) | ((b1 ^ b2) as u64);
        } else {
            let rcarryb3 = (b1 as i8) + (b2 as i8) + (rcarry_z as i8);
            *u = (*u1 >> 1) + (*u2 >> 1) + ((rcarryb3 >> 1) as u64);
            rcarry_z = *u >> 63 != 0;
            *u = (*u << 1) | ((rcarryb3 & 0x1) as u64);
        }
    }

    //Exception handling
    let q_z = Q32E2::from_bits(u_z);
    *q = if q_z.is_nar() { Q32E2::ZERO } else { q_z }
}

pub(super) fn fdp_one(""",
  """            if *u > 1 {
                *u = u.wrapping_neg();
                for w in j {
                    *w = !*w;
                }
                break;
            }
        }
    }

    //Addition
    let mut u_z: [u64; 8] = [0; 8];
    let mut rcarry_z = false;
    for (i, (u, (u1, u2))) in (0..8)
        .zip(u_z.iter_mut().zip(u_z1.iter().zip(u_z2.iter())))
        .rev()
    {
        let b1 = (*u1 & 0x1) != 0;
        let b2 = (*u2 & 0x1) != 0;
        if i == 7 {
            let rcarryb = b1 & b2;
            *u = (*u1 >> 1) + (*u2 >> 1) + (rcarryb as u64);
            rcarry_z = *u >> 63 != 0;
            *u = (*u << 1) | ((b1 ^ b2) as u64);
        } else {
            let rcarryb3 = (b1 as i8) + (b2 as i8) + (rcarry_z as i8);
            *u = (*u1 >> 1) + (*u2 >> 1) + ((rcarryb3 >> 1) as u64);
            rcarry_z = *u >> 63 != 0;
            *u = (*u << 1) | ((rcarryb3 & 0x1) as u64);
        }
    }

    //Exception handling
    let q_z = Q32E2::from_bits(u_z);
    *q = if q_z.is_nar() { Q32E2::ZERO } else { q_z }
}

pub(super) fn fdp_one(""",
  note='negating a product term skips a limb equal to exactly 1 (term = 2^(64k))')
m('px_q22_sub_drops_last_term','C04','src/macros.rs',
  """        impl<const N: u32> ops::SubAssign<(($posit, $posit), ($posit, $posit))> for $quire {
            #[inline]
            fn sub_assign(&mut self, rhs: (($posit, $posit), ($posit, $posit))) {
                *self -= ((rhs.0).0, (rhs.1).0);
                *self -= ((rhs.0).0, (rhs.1).1);
                *self -= ((rhs.0).1, (rhs.1).0);
                *self -= ((rhs.0).1, (rhs.1).1);""",
  """        impl<const N: u32> ops::SubAssign<(($posit, $posit), ($posit, $posit))> for $quire {
            #[inline]
            fn sub_assign(&mut self, rhs: (($posit, $posit), ($posit, $posit))) {
                *self -= ((rhs.0).0, (rhs.1).0);
                *self -= ((rhs.0).0, (rhs.1).1);
                *self -= ((rhs.0).1, (rhs.1).0);
                *self -= ((rhs.0).1, (rhs.1).0);""",
  note='generic-width PxE2<N> spelling `q -= ((a,b),(c,d))` into Q32E2 uses c twice')
m('px_array_sub_adds','C04','src/macros.rs',
  """            fn sub_assign(&mut self, rhs: ($posit, [$posit; $i])) {
                for p in &rhs.1 {
                    *self -= (rhs.0, *p);
                }
            }
        }
    )*}
}
pub(crate) use quire_add_sub_array_x;""",
  """            fn sub_assign(&mut self, rhs: ($posit, [$posit; $i])) {
                for p in &rhs.1 {
                    *self += (rhs.0, *p);
                }
            }
        }
    )*}
}
pub(crate) use quire_add_sub_array_x;""",
  note='generic-width array spelling `q -= (a,[b;N])` adds')
m('px_trait_sub_product_adds','C04','src/quire32.rs',
  """    fn sub_product(&mut self, p_a: PxE2<{ N }>, p_b: PxE2<{ N }>) {
        let ui_a = p_a.to_bits();
        let ui_b = p_b.to_bits();
        ops::fdp(self, ui_a, ui_b, false);""",
  """    fn sub_product(&mut self, p_a: PxE2<{ N }>, p_b: PxE2<{ N }>) {
        let ui_a = p_a.to_bits();
        let ui_b = p_b.to_bits();
        ops::fdp(self, ui_a, ui_b, true);""",
  note='Quire<PxE2<N>>::sub_product for Q32E2 adds')
m('px_single_masks_low_byte','C04','src/macros.rs',
  """        impl<const N: u32> ops::AddAssign<$posit> for $quire {
            #[inline]
            fn add_assign(&mut self, rhs: $posit) {
                let ui = rhs.to_bits();""",
  """        impl<const N: u32> ops::AddAssign<$posit> for $quire {
            #[inline]
            fn add_assign(&mut self, rhs: $posit) {
                let ui = if N > 24 { rhs.to_bits() & !0xff | (rhs.to_bits() & 0xff) >> 1 << 1 } else { rhs.to_bits() };""",
  note='generic-width `q += p` drops the lowest pattern bit for widths above 24')
# ---------------- C12
m('q8_clear_noop','C12','src/quire8.rs',
  "    pub fn clear(&mut self) {\n        *self = Self::ZERO;\n    }",
  "    pub fn clear(&mut self) {\n        if self.is_nar() {\n            *self = Self::ZERO;\n        }\n    }",
  note='Q8E0::clear only clears a NaR quire')
m('q16_neg_high_half_only','C12','src/quire16.rs',
  "        self.0 = self.0.wrapping_neg();",
  "        self.0 = ((self.0 >> 64).wrapping_neg() << 64) | (self.0 & 0xFFFF_FFFF_FFFF_FFFF);",
  note='Q16E1::neg negates the high 64 bits only')
m('q16_neg_of_nar_gives_zero','C12','src/quire16.rs',
  "        self.0 = self.0.wrapping_neg();",
  "        self.0 = if self.is_nar() { 0 } else { self.0.wrapping_neg() };",
  note='Q16E1::neg turns a NaR quire into zero (NaR must stay NaR until cleared); identical on every sum')
m('q8_neg_of_nar_saturates','C12','src/quire8.rs',
  "        self.0 = self.0.wrapping_neg();",
  "        self.0 = self.0.checked_neg().unwrap_or(i32::MAX);",
  note='Q8E0::neg turns the NaR image into the largest positive image; identical on every sum')
m('q32_split3_stale','C12','src/quire32.rs',
  """        let p2 = self.to_posit();
        self -= p2;
        (p1, p2, self.to_posit())""",
  """        let p2 = self.to_posit();
        self -= p1;
        (p1, p2, self.to_posit())""",
  note='into_three_posits subtracts p1 twice')
m('q32_from_bits_swap_limbs','C12','src/quire32.rs',
  "        Self(v[0] as _, v[1], v[2], v[3], v[4], v[5], v[6], v[7])",
  "        Self(v[0] as _, v[1], v[2], v[3], v[4], v[6], v[5], v[7])",
  note='from_bits swaps limbs 5 and 6')
m('q32_trait_neg_is_clear','C12','src/quire32.rs',
  """    fn neg(&mut self) {
        Self::neg(self)
    }
}

impl<const N: u32> crate::Quire<PxE2<{ N }>> for Q32E2 {""",
  """    fn neg(&mut self) {
        Self::clear(self)
    }
}

impl<const N: u32> crate::Quire<PxE2<{ N }>> for Q32E2 {""",
  note='Quire<P32E2>::neg forwards to clear')
m('px_from_posit_negated','C12','src/quire32/convert.rs',
  """        let mut q = Self::ZERO;
        q += (a, PxE2::ONE);
        q""",
  """        let mut q = Self::ZERO;
        q -= (a, PxE2::ONE);
        q""",
  note='Q32E2::from(PxE2<N>) loads -p')
m('px_facade_clear_noop','C12','src/quire32.rs',
  """        ops::fdp(self, ui_a, ui_b, false);
    }
    fn clear(&mut self) {
        Self::clear(self)
    }
    fn neg(&mut self) {
        Self::neg(self)
    }
}

use core::fmt;
impl fmt::Display for Q32E2 {""",
  """        ops::fdp(self, ui_a, ui_b, false);
    }
    fn clear(&mut self) {
        let _ = self;
    }
    fn neg(&mut self) {
        Self::neg(self)
    }
}

use core::fmt;
impl fmt::Display for Q32E2 {""",
  note='Quire<PxE2<N>>::clear for Q32E2 does nothing')
m('px_facade_neg_noop','C12','src/quire32.rs',
  """        ops::fdp(self, ui_a, ui_b, false);
    }
    fn clear(&mut self) {
        Self::clear(self)
    }
    fn neg(&mut self) {
        Self::neg(self)
    }
}

use core::fmt;
impl fmt::Display for Q32E2 {""",
  """        ops::fdp(self, ui_a, ui_b, false);
    }
    fn clear(&mut self) {
        Self::clear(self)
    }
    fn neg(&mut self) {
        let _ = self;
    }
}

use core::fmt;
impl fmt::Display for Q32E2 {""",
  note='Quire<PxE2<N>>::neg for Q32E2 does nothing')
m('px_facade_is_nar_is_zero','C04','src/quire32.rs',
  """    fn is_nar(&self) -> bool {
        Self::is_nar(self)
    }
    fn add_product(&mut self, p_a: PxE2<{ N }>, p_b: PxE2<{ N }>) {""",
  """    fn is_nar(&self) -> bool {
        Self::is_zero(self)
    }
    fn add_product(&mut self, p_a: PxE2<{ N }>, p_b: PxE2<{ N }>) {""",
  note='Quire<PxE2<N>>::is_nar for Q32E2 forwards to is_zero')
m('px_facade_from_bits_drops_limb7','C12','src/quire32.rs',
  """    fn to_posit(&self) -> PxE2<{ N }> {
        PxE2::<{ N }>::from(self)
    }
    fn from_bits(v: Self::Bits) -> Self {
        Self::from_bits(v)""",
  """    fn to_posit(&self) -> PxE2<{ N }> {
        PxE2::<{ N }>::from(self)
    }
    fn from_bits(v: Self::Bits) -> Self {
        Self::from_bits([v[0], v[1], v[2], v[3], v[4], v[5], v[6], 0])""",
  note='Quire<PxE2<N>>::from_bits for Q32E2 zeroes the lowest limb')
# ---------------- C19
m('p32_range_end_inclusive','C19','src/p32e2.rs',
  "rng.gen_range(0x_4000_0000_u32..0x_4800_0000);","rng.gen_range(0x_4000_0000_u32..=0x_4800_0000);",
  note='first draw may be exactly 2.0 -> sample 1.0')
m('p32_range_start_low','C19','src/p32e2.rs',
  "rng.gen_range(0x_4000_0000_u32..0x_4800_0000);","rng.gen_range(0x_3FFF_FFFF_u32..0x_4800_0000);",
  note='first draw may be just below 1 -> negative sample')
m('p32_s2_plus_wide','C19','src/p32e2.rs',
  """        let s2 = rng.gen_range(0_u32..4);
        P32E2::from_bits((P32E2::from_bits(s) - P32E2::ONE).to_bits() ^ s2)""",
  """        let s2 = rng.gen_range(0_u32..8);
        P32E2::from_bits((P32E2::from_bits(s) - P32E2::ONE).to_bits() + s2)""",
  note='low bits added (not xored) from a wider range: can carry past the pattern of 1')
m('p8_range_inclusive','C19','src/p8e0.rs',
  "rng.gen_range(0_u8..0x_40);","rng.gen_range(0_u8..=0x_40);", note='P8 sample can be exactly 1')
m('neutral_p16_early_mask_narrow','neutral','src/p16e1.rs',
  "        if ui_a & 0x_f_fff8 == 0 {","        if ui_a & 0x_f_fffe == 0 {",
  note='early-return mask narrowed: inputs 2..7 now go through the normalisation loop and come out as the exact small posits 2^-17..7*2^-18, all inside [0,1): the property still holds (DESIGN 3.6 guessed otherwise; the check is rightly silent)')
m('p16_unclamped','C19','src/p16e1.rs',
  "            .min(0x3FFF)\n","", note='re-introduces the defect fixed in c448680')
m('p8_via_next_u64','C19','src/p8e0.rs',
  "        let s = rng.gen_range(0_u8..0x_40);\n        P8E0::new(s as i8)",
  "        let w: u64 = rng.gen();\n        P8E0::new(((w >> 58) as i8) | ((((w as u32) == u32::MAX) as i8) << 6))",
  note='sampler on one 64-bit draw; >= 1.0 only when the LOW 32 bits of the u64 word are all ones (exercises the next_u64 path of the simulated generator)')
m('p8_via_fill_bytes','C19','src/p8e0.rs',
  "        let s = rng.gen_range(0_u8..0x_40);\n        P8E0::new(s as i8)",
  "        let mut b = [0u8; 1];\n        rng.fill_bytes(&mut b);\n        P8E0::new(((b[0] >> 2) as i8) | (((b[0] == 0xFF) as i8) << 6))",
  note='sampler on fill_bytes; >= 1.0 only for the byte 0xff (exercises the fill_bytes path)')
m('q8_assert_multiline_panic','C04','src/quire8/ops.rs',
  "    let uq_z = uq_z2.wrapping_add(uq_z1);\n\n    //Exception handling\n    let q_z = Q8E0::from_bits(uq_z);\n    *q = if q_z.is_nar() { Q8E0::ZERO } else { q_z }\n}\n\npub(super) fn fdp_one(",
  "    let uq_z = uq_z2.wrapping_add(uq_z1);\n    assert_eq!(uq_z & 0x7, uq_z & 0x7 & !(((uq_z >> 20) & 1) * 4), \"low bits\\nmust be clear\");\n\n    //Exception handling\n    let q_z = Q8E0::from_bits(uq_z);\n    *q = if q_z.is_nar() { Q8E0::ZERO } else { q_z }\n}\n\npub(super) fn fdp_one(",
  note='an assert_eq! with a multi-line message that fires for some sums: the panic text must survive the replay file and the fresh-process comparison')
# ---------------- neutral (must stay silent)
m('neutral_q32_overflowing_add','neutral','src/quire32/ops.rs',
  """        if i == 7 {
            let rcarryb = b1 & b2;
            *u = (*u1 >> 1) + (*u2 >> 1) + (rcarryb as u64);
            rcarry_z = *u >> 63 != 0;
            *u = (*u << 1) | ((b1 ^ b2) as u64);
        } else {
            let rcarryb3 = (b1 as i8) + (b2 as i8) + (rcarry_z as i8);
            *u = (*u1 >> 1) + (*u2 >> 1) + ((rcarryb3 >> 1) as u64);
            rcarry_z = *u >> 63 != 0;
            *u = (*u << 1) | ((rcarryb3 & 0x1) as u64);
        }""",
  """        let _ = (b1, b2, i);
        let (s1, c1) = u1.overflowing_add(*u2);
        let (s2, c2) = s1.overflowing_add(rcarry_z as u64);
        *u = s2;
        rcarry_z = c1 | c2;""", count=2,
  note='ripple add rewritten with overflowing_add: same function')
m('neutral_macro_reorder_q22','neutral','src/macros.rs',
  """                *self += ((rhs.0).0, (rhs.1).0);
                *self += ((rhs.0).0, (rhs.1).1);
                *self += ((rhs.0).1, (rhs.1).0);
                *self += ((rhs.0).1, (rhs.1).1);""",
  """                *self += ((rhs.0).1, (rhs.1).1);
                *self += ((rhs.0).0, (rhs.1).1);
                *self += ((rhs.0).1, (rhs.1).0);
                *self += ((rhs.0).0, (rhs.1).0);""", count=2,
  note='expansion order of ((a,b),(c,d)) changed: same sum')
m('neutral_q16_neg_via_not','neutral','src/quire16.rs',
  "        self.0 = self.0.wrapping_neg();","        self.0 = (!self.0).wrapping_add(1);",
  note='neg as not+1')
m('neutral_p32_sampler_or','neutral','src/p32e2.rs',
  "P32E2::from_bits((P32E2::from_bits(s) - P32E2::ONE).to_bits() ^ s2)",
  "P32E2::from_bits(((P32E2::from_bits(s) - P32E2::ONE).to_bits() & !3) | ((P32E2::from_bits(s) - P32E2::ONE).to_bits() & 3) ^ s2)",
  note='same value, written differently')

m('neutral_p16_range_not_power_of_two','neutral','src/p16e1.rs',
  "P16E1::sub_one(rng.gen_range(0_u32..0x_4_0000))","P16E1::sub_one(rng.gen_range(0_u32..0x40001))",
  note='range 0..0x40001: the extra value 0x40000 is saturated by the clamp, so the property holds; but rand rejection zone is no longer a single bit, and a StepRng-like counter stream is rejected for ~130 000 consecutive words. Once reported as no_progress by the sweep mode (a false alarm, corrected: sweep words are not counted against the liveness cap)')
m('neutral_p32_ranges_not_power_of_two','neutral','src/p32e2.rs',
  """        let s = rng.gen_range(0x_4000_0000_u32..0x_4800_0000);
        let s2 = rng.gen_range(0_u32..4);""",
  """        let s = rng.gen_range(0x_4000_0000_u32..0x_47ff_fff9);
        let s2 = rng.gen_range(0_u32..3);""",
  note='narrower, non-power-of-two ranges: still inside [0,1); different rejection pattern in rand')

def sh(*a, **k): return subprocess.run(a, cwd=REPO, check=True, capture_output=True, text=True, **k).stdout
assert sh('git','status','--porcelain').strip()=='' , '/repo not clean'
os.makedirs(OUT, exist_ok=True)
for f in os.listdir(OUT):
    if f.endswith('.diff'): os.remove(os.path.join(OUT,f))
index=[]
for x in M:
    p=os.path.join(REPO,x['file']); s=open(p).read()
    c=s.count(x['old'])
    if c!=x['count']:
        print('SKIP',x['name'],'pattern count',c,'!=',x['count']); continue
    open(p,'w').write(s.replace(x['old'],x['new']))
    d=sh('git','diff')
    sh('git','checkout','--','.')
    open(os.path.join(OUT,x['name']+'.diff'),'w').write(d)
    index.append(dict(name=x['name'],expect=x['expect'],note=x['note']))
json.dump(index,open(os.path.join(OUT,'index.json'),'w'),indent=1)
print(len(index),'mutants written')
