#!/usr/bin/env python3
"""Summarise tools/mutation_sweep.jsonl into tools/mutation_sweep_report.md. Every surviving mutant
must fall under one of the hand-written explanations below (keyed by file and line of the pinned
tree + fix commits); an unexplained survivor makes this script fail — look at it."""
import json, collections, sys
import os
rows = [json.loads(l) for l in open('/verif/tools/mutation_sweep.jsonl')]
n_first = len(rows)
if os.path.exists('/verif/tools/mutation_sweep_stmt.jsonl'):
    rows += [json.loads(l) for l in open('/verif/tools/mutation_sweep_stmt.jsonl')]
n_stmt = len(rows) - n_first
if os.path.exists('/verif/tools/mutation_sweep_helpers.jsonl'):
    rows += [json.loads(l) for l in open('/verif/tools/mutation_sweep_helpers.jsonl')]
n_help = len(rows) - n_first - n_stmt
WHY = {
 'unused-constant': 'the quire constant `ONE` is not used by any operation the three properties speak about (nor anywhere in the crate)',
 'identity': 'the mutated expression is the same function (`x ^ false` vs `x | false`; a mask bit that is always zero after normalisation or after `bits << 2`; a constant whose lowest bit is shifted out because the shift count is at least 1; `shift < 0` vs `shift <= 0` where a shift by 0 is the same in both directions; an initial value that every path overwrites; a loop bound beyond the 8 limbs; `i == 8` never true so limb 7 takes the general branch with a zero incoming carry)',
 'renormalisation': 'value-preserving renormalisation: the product is placed at fixed-point position 4k+e (2k+e); carrying e into k, or shifting the significand by one and adding one to the scale, names the same position, and no set bit is shifted out',
 'single-posit-dead': 'in `fdp_one` (a single posit, not a product) the branch is unreachable or the operand is always zero: exponent sum never exceeds the field, the significand never carries, a posit is at least minpos so its lowest limb(s) are zero and it never reaches limb 0',
 'pxe2': 'code for the generic-width posits PxE2<N> (properties C13/C14, not decided by this family); not exercised by the C04/C12 simulator by design',
 'no-linalg': 'the mutant does not compile with softposit\'s optional `linalg` feature; the wrapper fell back to a simulator without the matrix client, which is silent by construction',
 'reduced-batch': 'NOT equivalent: a real defect (sticky bit exactly 63 places below the leading bit ignored when the regime is 29 or 30 bits long) that the sweep\'s reduced 150 000-run batch does not reach; the registered quick check (400 000 runs) reports it (default seed: run 215539, clause to_posit). The rarest catch in the sweep',
 'not-reached': 'in `P32E2::separate_bits` (the three-value form), which the posit arithmetic uses and the quire code does not (it calls `separate_bits_tmp`)',
 'other-module': 'the statement declares the quire\'s `math` sub-module (functions the three properties do not speak about)',
 'in-comment': 'the mutated text is inside a /* block comment */',
 'still-in-range': 'property-preserving: the sampler still returns only patterns in [0, pattern(1)) — a narrower or shifted range, OR/XOR of low bits that cannot carry, or any arithmetic inside `sub_one`, whose result is saturated to 0..=0x3FFF by the clamp of fix c448680 (C19 constrains the range, not the distribution)',
}
RULES = [
 ('src/quire32/convert.rs', {139}, 'reduced-batch'),
 ('src/p8e0.rs', {123, 129, 133, 157, 160}, 'identity'), ('src/p16e1.rs', {136, 142, 146, 173, 176}, 'identity'),
 ('src/p32e2.rs', {136, 142, 146, 174, 177}, 'identity'), ('src/p32e2.rs', {126, 127}, 'not-reached'),
 ('src/quire8.rs', {4}, 'other-module'), ('src/quire16.rs', {4}, 'other-module'),
 ('src/quire16/ops.rs', {43}, 'renormalisation'), ('src/quire16/ops.rs', {97}, 'single-posit-dead'),
 ('src/quire16/convert.rs', {106}, 'identity'),
 ('src/quire32/ops.rs', {49}, 'renormalisation'), ('src/quire32/ops.rs', {148, 203}, 'single-posit-dead'),
 ('src/quire32/convert.rs', {95, 135, 140}, 'identity'),
 ('src/quire8.rs', {13}, 'unused-constant'), ('src/quire16.rs', {13}, 'unused-constant'), ('src/quire32.rs', {12}, 'unused-constant'),
 ('src/quire8/ops.rs', {68}, 'identity'), ('src/quire8/convert.rs', {65}, 'identity'),
 ('src/quire16/ops.rs', {42}, 'renormalisation'), ('src/quire16/ops.rs', {54, 108, 111}, 'identity'),
 ('src/quire16/ops.rs', {91, 92, 93, 96, 98, 99, 101, 102}, 'single-posit-dead'),
 ('src/quire16/convert.rs', {100}, 'identity'),
 ('src/quire32/ops.rs', {10}, 'pxe2'), ('src/quire32/convert.rs', {20}, 'pxe2'),
 ('src/quire32/ops.rs', {43, 48, 51, 53}, 'renormalisation'),
 ('src/quire32/ops.rs', {67, 93, 94, 95, 101, 192, 193, 194}, 'identity'),
 ('src/quire32/ops.rs', {142, 143, 144, 147, 149, 150, 151, 152, 166, 171, 200, 202, 204}, 'single-posit-dead'),
 ('src/quire32/convert.rs', {42, 123}, 'identity'),
 ('src/linalg.rs', {17}, 'no-linalg'),
 ('src/p16e1.rs', {222, 223, 224, 225}, 'in-comment'),
 ('src/p8e0.rs', {205}, 'still-in-range'), ('src/p32e2.rs', {224, 225, 226}, 'still-in-range'),
 ('src/p16e1.rs', set(range(221, 222)) | set(range(232, 266)), 'still-in-range'),
]
def why(r):
    for f, lines, k in RULES:
        if r['file'] == f and r['line'] in lines:
            return k
    return None
c = collections.Counter(r['status'] for r in rows)
surv = [r for r in rows if r['status'] == 'survived']
un = [r for r in surv if why(r) is None]
byk = collections.Counter(why(r) for r in surv)
killed_by = collections.Counter((r['by'], r['detail'].split('clause ')[1].split(' ')[0] if 'clause ' in r['detail'] else 'hang/abort') for r in rows if r['status'] == 'killed')
out = ['# First-order mutation sweep of the code behind C04 / C12 / C19', '',
 f'{len(rows)} mutants ({n_first} token-level: operator / literal / boolean / negation; {n_stmt} statement-level: statement deleted, branch or loop condition forced; {n_help} token-level in the shared posit helpers sign / regime / pack / separate_bits) — `tools/mutation_sweep.py`, quick checks with VERIF_RUNS=150000, checked profile only: '
 f'**{c["killed"]} killed**, {c["nobuild"]} do not compile, **{c["survived"]} survive — all {len(surv) - len(un)} explained below** '
 f'({len(un)} unexplained).', '',
 'A survivor is either an equivalent mutant, a mutant that still satisfies the property, or code outside the three properties; none is a blind spot of the checks. (Results of the re-run with the final machinery.)', '',
 '| why the mutant survives | count |', '|---|---|']
for k, n in byk.most_common():
    out.append(f'| {WHY.get(k, "UNEXPLAINED")} | {n} |')
out += ['', '## Killed mutants by reporting check and clause', '', '| check | clause | count |', '|---|---|---|']
for (p, cl), n in sorted(killed_by.items(), key=lambda x: -x[1]):
    out.append(f'| {p} | {cl} | {n} |')
out += ['', '## Survivors', '', '| file:line | mutation | mutated line | why |', '|---|---|---|---|']
for r in surv:
    out.append(f"| {r['file']}:{r['line']} | `{r['desc']}` | `{r['after'][:80].replace('|', '¦')}` | {why(r) or 'UNEXPLAINED'} |")
open('/verif/tools/mutation_sweep_report.md', 'w').write('\n'.join(out) + '\n')
print(c, 'unexplained survivors:', len(un))
for r in un:
    print('  ', r['file'], r['line'], r['desc'], '|', r['after'])
sys.exit(1 if un else 0)
