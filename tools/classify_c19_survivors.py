#!/usr/bin/env python3
"""Classify the survivors of `tools/mutation_sweep.py --regions c19arith` with the exhaustive
word->sample enumeration (`simcheck enumerate-samplers`, an analysis aid, not a check): a survivor
under which EVERY accepted word still gives a sample in [0,1) is property-preserving (C19 does not
constrain the distribution); one with bad samples is a mutant the seeded search missed."""
import json, os, subprocess
REPO='/repo'; P='/verif/tools/mutation_sweep_c19arith.jsonl'
rows=[json.loads(l) for l in open(P)]
assert subprocess.run('git -C /repo status --porcelain',shell=True,capture_output=True,text=True).stdout.strip()==''
n=0
try:
    for r in rows:
        if r['status']!='survived' or 'enumeration' in r: continue
        path=os.path.join(REPO,r['file']); orig=open(path).read(); lines=orig.split('\n')
        assert lines[r['line']-1].strip()==r['before'], (r['file'],r['line'])
        indent=lines[r['line']-1][:len(lines[r['line']-1])-len(lines[r['line']-1].lstrip())]
        lines[r['line']-1]=indent+r['after']
        open(path,'w').write('\n'.join(lines))
        b=subprocess.run('cd /verif/sim && cargo build --offline --release 2>&1 | tail -1',shell=True,capture_output=True,text=True)
        e=subprocess.run(['/verif/.build/release/simcheck','enumerate-samplers'],capture_output=True,text=True)
        open(path,'w').write(orig)
        out=[l for l in e.stdout.split('\n') if l.strip()]
        r['enumeration']=out[0] if out else 'no output'
        r['enumeration_examples']=out[1:4]
        n+=1
        print(n, r['file'], r['line'], r['desc'], '->', r['enumeration'], out[1:2], flush=True)
finally:
    subprocess.run('git -C /repo checkout -- .',shell=True)
    open(P,'w').write(''.join(json.dumps(r)+'\n' for r in rows))
    subprocess.run('cd /verif/sim && cargo build --offline --release >/dev/null 2>&1',shell=True)
