#!/bin/bash
# Unit tests of the oracle's trusted base (640-bit integer, posit decode, rounding): includes an
# independent cross-check that round_exact returns a value-nearest posit with ties to even.
cd "$(dirname "$0")/../sim" && CARGO_NET_OFFLINE=true cargo test --offline --release 2>&1 | grep -E "^test |test result"
