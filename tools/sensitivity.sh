#!/bin/bash
# Sensitivity proof (DESIGN §3.6): apply each deliberate patch of tools/mutants to /repo, run the
# relevant quick check(s), and require a VIOLATION (exit 1) for property-breaking patches and
# silence (exit 0) for behaviour-preserving ones. /repo is restored after every patch.
# usage: tools/sensitivity.sh [name-filter]
set -u
cd "$(dirname "$0")/.." || exit 2
[ -z "$(git -C /repo status --porcelain)" ] || { echo "/repo is not clean"; exit 2; }
trap 'git -C /repo checkout -- . 2>/dev/null' EXIT
ok=0; bad=0
for row in $(python3 -c "
import json
for x in json.load(open('tools/mutants/index.json')): print(x['name']+':'+x['expect'])"); do
    name=${row%%:*}; exp=${row##*:}
    case "$name" in *"${1:-}"*) ;; *) continue ;; esac
    git -C /repo apply "$PWD/tools/mutants/$name.diff" || { echo "APPLY-FAIL $name"; bad=$((bad+1)); continue; }
    if [ "$exp" = neutral ]; then props="C04 C12 C19"; else props="$exp"; fi
    for p in $props; do
        out=$(./check $p quick 2>&1); code=$?
        if [ "$exp" = neutral ]; then
            if [ $code = 0 ]; then echo "ok    $name: $p silent"; ok=$((ok+1)); else echo "WRONG $name: $p exit $code on a behaviour-preserving change"; echo "$out" | tail -15; bad=$((bad+1)); fi
        else
            if [ $code = 1 ] && echo "$out" | grep -q "^VIOLATION property=$p "; then
                echo "ok    $name: $(echo "$out" | grep '^violation:' | head -1 | cut -c1-150)"; ok=$((ok+1))
            else echo "MISS  $name: $p exit $code"; echo "$out" | tail -5; bad=$((bad+1)); fi
        fi
    done
    git -C /repo checkout -- .
done
rm -f replays/*.replay
echo "sensitivity: $ok as expected, $bad not"
[ $bad = 0 ]
