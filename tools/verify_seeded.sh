#!/bin/bash
# Independent confirmation of a seeded change before it is kept under /verif/seeded:
#   [DEMO_FLAGS="--release"] [DEMO_FEATURES="rand,linalg"] tools/verify_seeded.sh <dir with patch.diff and demo.rs> [scratch worktree]
# In a scratch worktree of /repo (outside /repo and /verif): the demo passes without the patch,
# fails with it, and the crate's own test suite still passes with it. Prints one line per step and
# a final "VERIFIED <dir>" / "REJECTED <dir> <why>".
set -u
D="$(cd "$1" && pwd)"; WT="${2:-/tmp/wt-verify-$$}"
export CARGO_NET_OFFLINE=true
own=0
if [ ! -d "$WT" ]; then git -C /repo worktree add -q --detach "$WT" HEAD || exit 2; own=1; fi
cleanup() { git -C "$WT" checkout -q -- . 2>/dev/null; rm -rf "$WT/tests"; if [ $own = 1 ]; then git -C /repo worktree remove --force "$WT"; fi; }
trap cleanup EXIT
cd "$WT" || exit 2
git checkout -q -- . ; rm -rf tests; mkdir tests; cp "$D/demo.rs" tests/demo.rs
if cargo test --offline ${DEMO_FLAGS:-} --features "${DEMO_FEATURES:-rand}" --test demo >"$D/.verify_demo_without.log" 2>&1; then echo "demo without patch: pass"; else echo "REJECTED $D demo fails on the pristine tree"; exit 1; fi
git apply "$D/patch.diff" || { echo "REJECTED $D patch does not apply"; exit 1; }
if cargo test --offline ${DEMO_FLAGS:-} --features "${DEMO_FEATURES:-rand}" --test demo >"$D/.verify_demo_with.log" 2>&1; then echo "REJECTED $D demo passes with the patch"; exit 1; else
  if grep -q "^error" "$D/.verify_demo_with.log" && ! grep -q "test result: FAILED" "$D/.verify_demo_with.log"; then echo "REJECTED $D does not compile with the patch"; exit 1; fi
  echo "demo with patch: fail"; fi
rm -rf tests
cargo test --offline --workspace --no-fail-fast >"$D/.verify_suite_with.log" 2>&1
failed=$(grep -E "^test .* FAILED" "$D/.verify_suite_with.log" | grep -v "p32e2::math::mul_add::test_mul_add" | wc -l)
passed=$(grep -E "^test result: ok|^test result: FAILED" "$D/.verify_suite_with.log" | head -1)
if [ "$failed" != 0 ]; then echo "REJECTED $D existing suite fails with the patch: $(grep -E '^test .* FAILED' "$D/.verify_suite_with.log" | head -3)"; exit 1; fi
echo "suite with patch: $passed"
echo "VERIFIED $D"
