#!/usr/bin/env python3
"""Systematic sensitivity sweep: first-order mutants of the code behind C04 / C12 / C19.

For every mutation site in the anchored (non-test) code of the quires, the quire macros, the
samplers and linalg.rs, one token is changed (arithmetic / shift / bit / comparison / logical
operator flipped, integer literal +-1, boolean flipped, negation dropped), /repo is rebuilt and
the relevant quick checks are run with a reduced batch. A mutant is
  killed     some check exits 1 with a VIOLATION line
  survived   every relevant check exits 0           (equivalent mutant, or a blind spot: look at it)
  nobuild    the crate no longer compiles
  error      a check exits 2
/repo is restored after every mutant. Results: tools/mutation_sweep.jsonl (one line per mutant) and a
summary on stdout. This does not run the crate's own suite: it measures the checks, not the mutants.

usage: tools/mutation_sweep.py [--limit N] [--only <substring of file>] [--runs N] [--resume]
"""
import json, os, re, subprocess, sys, time

# MS_REPO / MS_VERIF: run against a scratch replica (a clone of /repo and a copy of /verif whose
# sim/Cargo.toml points at the clone) so that a sweep does not occupy /repo itself
REPO = os.environ.get('MS_REPO', '/repo')
VERIF = os.environ.get('MS_VERIF', '/verif')
OUT = os.path.join(VERIF, 'tools', ('mutation_sweep_%s.jsonl' % sys.argv[sys.argv.index('--regions') + 1]) if '--regions' in sys.argv else ('mutation_sweep_stmt.jsonl' if ('--mode' in sys.argv and 'stmt' in sys.argv) else 'mutation_sweep.jsonl'))

# (file, first line, last line, properties to try in order); line ranges are inclusive, 1-based, and
# cover the code the three properties are anchored in (test modules and the PxE2<N> impls excluded)
def regions():
    if '--regions' in sys.argv and sys.argv[sys.argv.index('--regions') + 1] == 'c19arith':
        # the arithmetic the samplers call: P32E2 subtraction of 1.0 from 1.x, and P16E1::form_ui
        return [('src/p32e2/ops.rs', 33, 51, ['C19']), ('src/p32e2/ops.rs', 154, 185, ['C19']),
                ('src/p32e2/ops.rs', 311, 385, ['C19']), ('src/p16e1/ops.rs', 13, 37, ['C19'])]
    if '--regions' in sys.argv and sys.argv[sys.argv.index('--regions') + 1] == 'helpers':
        # the posit helpers the quire code shares with the posit arithmetic: sign / regime / pack / separate
        # (calculate_scale is not used by the quires)
        return [('src/p8e0.rs', 84, 137, ['C04', 'C12']), ('src/p8e0.rs', 153, 163, ['C04', 'C12']),
                ('src/p16e1.rs', 94, 150, ['C04', 'C12']), ('src/p16e1.rs', 169, 179, ['C04', 'C12']),
                ('src/p32e2.rs', 92, 150, ['C04', 'C12']), ('src/p32e2.rs', 170, 180, ['C04', 'C12'])]
    if '--regions' in sys.argv and sys.argv[sys.argv.index('--regions') + 1] == 'pxe2':
        # the generic-width PxE2<N> operand spellings and trait facade of Q32E2 (in the histories since
        # session 3); to_posit -> PxE2<N> (C14) stays out
        lines = open(os.path.join(REPO, 'src/macros.rs')).read().split('\n')
        a = next(i for i, l in enumerate(lines) if l.startswith('macro_rules! quire_add_sub_array_x {')) + 1
        b = next(i for i, l in enumerate(lines) if l.startswith('pub(crate) use quire_add_sub_x;'))
        q = open(os.path.join(REPO, 'src/quire32.rs')).read().split('\n')
        qa = next(i for i, l in enumerate(q) if 'impl<const N: u32> crate::Quire<PxE2' in l) + 1
        qb = next(i for i, l in enumerate(q) if l.startswith('use core::fmt;'))
        return [('src/macros.rs', a, b, ['C04', 'C12']), ('src/quire32.rs', qa, qb, ['C04', 'C12']),
                ('src/quire32/convert.rs', 16, 23, ['C12', 'C04'])]
    r = []
    def upto_tests(path):
        lines = open(os.path.join(REPO, path)).read().split('\n')
        end = len(lines)
        for i, l in enumerate(lines):
            if l.startswith('#[test]') or l.startswith('#[cfg(test)]'):
                end = i
                break
        return end
    for f in ['src/quire8.rs', 'src/quire8/ops.rs', 'src/quire8/convert.rs',
              'src/quire16.rs', 'src/quire16/ops.rs', 'src/quire16/convert.rs',
              'src/quire32/ops.rs']:
        r.append((f, 1, upto_tests(f), ['C04', 'C12']))
    # quire32.rs: stop before the PxE2 trait impl
    lines = open(os.path.join(REPO, 'src/quire32.rs')).read().split('\n')
    stop = next(i for i, l in enumerate(lines) if 'impl<const N: u32> crate::Quire<PxE2' in l)
    r.append(('src/quire32.rs', 1, stop, ['C04', 'C12']))
    lines = open(os.path.join(REPO, 'src/quire32/convert.rs')).read().split('\n')
    stop = next(i for i, l in enumerate(lines) if l.startswith('impl<const N: u32> From<Q32E2> for PxE2'))
    r.append(('src/quire32/convert.rs', 1, stop, ['C04', 'C12']))
    lines = open(os.path.join(REPO, 'src/macros.rs')).read().split('\n')
    a = next(i for i, l in enumerate(lines) if l.startswith('macro_rules! quire_add_sub_array {')) + 1
    b = next(i for i, l in enumerate(lines) if l.startswith('macro_rules! quire_add_sub_array_x {'))
    r.append(('src/macros.rs', a, b, ['C04']))
    r.append(('src/linalg.rs', 1, len(open(os.path.join(REPO, 'src/linalg.rs')).read().split('\n')), ['C04']))
    for f, marker_a, marker_b in [
        ('src/p8e0.rs', 'impl rand::distributions::Distribution<P8E0>', 'impl crate::RawPosit for P8E0'),
        ('src/p16e1.rs', 'impl rand::distributions::Distribution<P16E1>', 'impl crate::RawPosit for P16E1'),
        ('src/p32e2.rs', 'impl rand::distributions::Distribution<P32E2>', 'impl crate::RawPosit for P32E2'),
    ]:
        lines = open(os.path.join(REPO, f)).read().split('\n')
        a = next(i for i, l in enumerate(lines) if marker_a in l) + 1
        b = next(i for i, l in enumerate(lines) if marker_b in l)
        r.append((f, a, b, ['C19']))
    return r

OPS = [
    (r' \+ ', ' - '), (r' - ', ' + '),
    (r' << ', ' >> '), (r' >> ', ' << '),
    (r' & ', ' | '), (r' \| ', ' & '), (r' \^ ', ' | '),
    (r' == ', ' != '), (r' != ', ' == '),
    (r' < ', ' <= '), (r' <= ', ' < '), (r' > ', ' >= '), (r' >= ', ' > '),
    (r' && ', ' || '), (r' \|\| ', ' && '),
    (r'\btrue\b', 'false'), (r'\bfalse\b', 'true'),
    (r'!\(', '('), (r'!\*', '*'), (r'= !', '= '),
    (r'\.wrapping_neg\(\)', ''),
    (r' \+= ', ' -= '), (r' -= ', ' += '),
    (r' <<= ', ' >>= '), (r' \|= ', ' &= '),
]
NUM = re.compile(r'(?<![\w.])(0x_?[0-9a-fA-F_]+|\d[\d_]*)((?:_?[iu](?:8|16|32|64|128|size))?)(?![\w.]|\s*\])')

def strip_comment(line):
    i = line.find('//')
    return (line, '') if i < 0 else (line[:i], line[i:])

STMT_MODE = '--mode' in sys.argv and sys.argv[sys.argv.index('--mode') + 1] == 'stmt'

def stmt_mutants_of_line(line):
    """second sweep: statement deletion and forced branch conditions"""
    code, comment = strip_comment(line)
    st = code.strip()
    if not st or st.startswith('#') or st.startswith('use ') or st.startswith('pub ') or st.startswith('fn '):
        return
    indent = code[:len(code) - len(code.lstrip())]
    if st.endswith(';') and not st.startswith('let ') and not st.startswith('return') and not st.startswith('type ') and not st.startswith('const ') and '{' not in st and '}' not in st:
        yield indent + '/* deleted: ' + st.replace('*/', '* /') + ' */' + comment, 'statement deleted'
    m = re.match(r'^(\s*(?:\} else )?if )(.*)( \{)\s*$', code)
    if m and not m.group(2).startswith('let '):
        for v in ('true', 'false'):
            yield m.group(1) + v + m.group(3) + comment, f'if-condition -> {v}'
    m = re.match(r'^(\s*while )(.*)( \{)\s*$', code)
    if m and not m.group(2).startswith('let '):
        yield m.group(1) + 'false' + m.group(3) + comment, 'while-condition -> false'

def mutants_of_line(line):
    if STMT_MODE:
        yield from stmt_mutants_of_line(line)
        return
    code, comment = strip_comment(line)
    if not code.strip() or code.strip().startswith('#'):
        return
    # give range operators some air so that the literals on either side are seen as literals
    code = re.sub(r'(?<=[\w)])\.\.(=?)(?=[\w(])', r' ..\1 ', code)
    for pat, rep in OPS:
        for m in re.finditer(pat, code):
            yield code[:m.start()] + rep + code[m.end():] + comment, f'{pat.strip()} -> {rep.strip() or "(dropped)"}'
    for m in NUM.finditer(code):
        tok, suf = m.group(1), m.group(2)
        try:
            val = int(tok.replace('_', ''), 0)
        except ValueError:
            continue
        for nv in (val + 1, val - 1):
            if nv < 0:
                continue
            new = hex(nv) if tok.lower().startswith('0x') else str(nv)
            sep = '_' if suf and not suf.startswith('_') else ''
            yield code[:m.start(1)] + new + sep + suf + code[m.end(2):] + comment, f'{tok}{suf} -> {new}{sep}{suf}'

def sh(cmd, **kw):
    return subprocess.run(cmd, shell=True, capture_output=True, text=True, **kw)

def main():
    args = sys.argv[1:]
    limit = int(args[args.index('--limit') + 1]) if '--limit' in args else None
    only = args[args.index('--only') + 1] if '--only' in args else ''
    runs = args[args.index('--runs') + 1] if '--runs' in args else '150000'
    resume = '--resume' in args
    assert sh(f'git -C {REPO} status --porcelain').stdout.strip() == '', '/repo not clean'
    done = set()
    if resume and os.path.exists(OUT):
        for l in open(OUT):
            d = json.loads(l)
            done.add((d['file'], d['line'], d['desc'], d['col']))
    else:
        open(OUT, 'w').close()
    env = dict(os.environ, VERIF_RUNS=runs, SIMCHECK_SKIP_FAST='1', CARGO_NET_OFFLINE='true')
    n = 0
    tally = {}
    t0 = time.time()
    try:
        for f, a, b, props in regions():
            if only and only not in f:
                continue
            path = os.path.join(REPO, f)
            orig = open(path).read()
            lines = orig.split('\n')
            for ln in range(a - 1, min(b, len(lines))):
                seen = set()
                for col, (new, desc) in enumerate(mutants_of_line(lines[ln])):
                    if new == lines[ln] or new in seen:
                        continue
                    seen.add(new)
                    key = (f, ln + 1, desc, col)
                    if key in done:
                        continue
                    if limit is not None and n >= limit:
                        raise StopIteration
                    n += 1
                    mut = lines[:ln] + [new] + lines[ln + 1:]
                    open(path, 'w').write('\n'.join(mut))
                    status, by, detail = 'survived', None, ''
                    for p in props:
                        r = subprocess.run([os.path.join(VERIF, 'check'), p, 'quick'], capture_output=True, text=True, env=env, cwd=VERIF)
                        if r.returncode == 1 and f'VIOLATION property={p} ' in r.stdout:
                            v = [l for l in r.stdout.split('\n') if l.startswith('violation:')]
                            status, by, detail = 'killed', p, (v[0][:200] if v else '')
                            break
                        if r.returncode == 2:
                            if 'build of the simulator against /repo failed' in r.stderr:
                                status = 'nobuild'
                            else:
                                status, detail = 'error', (r.stderr.strip().split('\n') or [''])[-1][:200]
                            break
                        if r.returncode != 0:
                            status, detail = 'error', f'exit {r.returncode}'
                            break
                    open(path, 'w').write(orig)
                    rec = dict(file=f, line=ln + 1, col=col, desc=desc, before=lines[ln].strip(), after=new.strip(), status=status, by=by, detail=detail)
                    open(OUT, 'a').write(json.dumps(rec) + '\n')
                    tally[status] = tally.get(status, 0) + 1
                    if n % 20 == 0:
                        print(f'[{n}] {tally} {time.time() - t0:.0f}s', flush=True)
            open(path, 'w').write(orig)
    except StopIteration:
        pass
    finally:
        sh(f'git -C {REPO} checkout -- .')
        sh(f"find {VERIF}/replays -name '*.replay' -delete")
    print('mutation sweep:', n, 'mutants', tally)

if __name__ == '__main__':
    main()
