#!/usr/bin/env python3
"""Second-order sweep: pairs of first-order SURVIVORS (each equivalent on its own) inside the same
function of the quire accumulate code. 'Two cooperating sites that each look fine alone': e.g. one
mutant makes an unreachable branch reachable, the other changes what that branch does. A pair is
killed / survives like a single mutant. All activator x inner pairs, plus a random sample of the rest."""
import json, os, random, subprocess, sys, itertools
REPO=os.environ.get('MS_REPO','/repo'); VERIF=os.environ.get('MS_VERIF','/verif')
OUT=os.path.join(VERIF,'tools','mutation_sweep_pairs.jsonl')
rows=[]
for f in ('mutation_sweep.jsonl','mutation_sweep_stmt.jsonl'):
    rows+=[json.loads(l) for l in open(os.path.join('/verif/tools',f))]
FUNCS=[('src/quire16/ops.rs',8,68,'q16.fdp'),('src/quire16/ops.rs',71,124,'q16.fdp_one'),
       ('src/quire32/ops.rs',12,117,'q32.fdp'),('src/quire32/ops.rs',119,217,'q32.fdp_one')]
ACT={('src/quire16/ops.rs',96),('src/quire16/ops.rs',97),('src/quire16/ops.rs',91),('src/quire32/ops.rs',147),('src/quire32/ops.rs',148),('src/quire32/ops.rs',142),
     ('src/quire16/ops.rs',42),('src/quire16/ops.rs',43),('src/quire32/ops.rs',48),('src/quire32/ops.rs',49),('src/quire32/ops.rs',43),('src/quire32/ops.rs',51)}
pairs=[]
rnd=random.Random(20260928)
for f,a,b,name in FUNCS:
    sv=[r for r in rows if r['status']=='survived' and r['file']==f and a<=r['line']<=b]
    allp=[(x,y) for x,y in itertools.combinations(sv,2) if x['line']!=y['line']]
    must=[p for p in allp if ((p[0]['file'],p[0]['line']) in ACT) != ((p[1]['file'],p[1]['line']) in ACT)]
    rest=[p for p in allp if p not in must]
    rnd.shuffle(rest)
    pairs+= [(name,p) for p in must] + [(name,p) for p in rest[:60]]
print(len(pairs),'pairs')
limit=int(sys.argv[sys.argv.index('--limit')+1]) if '--limit' in sys.argv else None
env=dict(os.environ, VERIF_RUNS='150000', SIMCHECK_SKIP_FAST='1', CARGO_NET_OFFLINE='true')
open(OUT,'w').close()
tally={}
try:
    for n,(name,(x,y)) in enumerate(pairs):
        if limit is not None and n>=limit: break
        path=os.path.join(REPO,x['file']); orig=open(path).read(); lines=orig.split('\n')
        ok=True
        for r in (x,y):
            cur=lines[r['line']-1]
            if cur.strip()!=r['before']: ok=False; break
            lines[r['line']-1]=cur[:len(cur)-len(cur.lstrip())]+r['after']
        if not ok: continue
        open(path,'w').write('\n'.join(lines))
        status,by,detail='survived',None,''
        for p in ('C04','C12'):
            r=subprocess.run([os.path.join(VERIF,'check'),p,'quick'],capture_output=True,text=True,env=env,cwd=VERIF)
            if r.returncode==1 and f'VIOLATION property={p} ' in r.stdout:
                v=[l for l in r.stdout.split('\n') if l.startswith('violation:')]
                status,by,detail='killed',p,(v[0][:160] if v else ''); break
            if r.returncode==2:
                status='nobuild' if 'build of the simulator' in r.stderr else 'error'; detail=r.stderr.strip().split('\n')[-1][:160]; break
        open(path,'w').write(orig)
        rec=dict(func=name,file=x['file'],a=dict(line=x['line'],desc=x['desc'],after=x['after']),b=dict(line=y['line'],desc=y['desc'],after=y['after']),status=status,by=by,detail=detail)
        open(OUT,'a').write(json.dumps(rec)+'\n')
        tally[status]=tally.get(status,0)+1
        if n%20==0: print(n,tally,flush=True)
finally:
    subprocess.run(f'git -C {REPO} checkout -- .',shell=True)
print('pair sweep',tally)
