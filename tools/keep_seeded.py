#!/usr/bin/env python3
"""tools/keep_seeded.py <source dir> <id> <property> "<needs>"  — keep a confirmed seeded change under
/verif/seeded/<id>/ (patch.diff, demo.rs, notes.md, meta.json). Run tools/verify_seeded.sh first."""
import sys, os, shutil, json
src, sid, prop, needs = sys.argv[1:5]
extra = sys.argv[5] if len(sys.argv) > 5 else ''
dst = f'/verif/seeded/{sid}'
os.makedirs(dst, exist_ok=True)
for f in ('patch.diff','demo.rs','notes.md'):
    if os.path.exists(os.path.join(src,f)): shutil.copy(os.path.join(src,f), os.path.join(dst,f))
ver = {}
for k,f in (('demo_without_patch','.verify_demo_without.log'),('demo_with_patch','.verify_demo_with.log'),('suite_with_patch','.verify_suite_with.log')):
    p=os.path.join(src,f)
    if os.path.exists(p):
        lines=[l.strip() for l in open(p,errors='replace') if l.startswith('test result')]
        ver[k]=lines[:2]
origin = 'independent sub-agent given only the property text and a scratch worktree'
if sid.startswith('r2'):
    origin = 'round-2 sub-agent: given the property text and a scratch worktree, and additionally told in general terms what a randomized differential tester / adversarial RNG simulator already does (no file from /verif), and asked for changes such a tester would likely miss'
meta = dict(id=sid, property=prop, origin=origin,
            needs_to_manifest=needs,
            confirmed_by='tools/verify_seeded.sh in a scratch worktree: demo passes without the patch, fails with it; existing suite passes with it',
            confirmation=ver,
            note=extra,
            how_to_run='git -C /repo apply /verif/seeded/%s/patch.diff && ./check %s quick ; git -C /repo checkout -- .' % (sid, prop))
json.dump(meta, open(os.path.join(dst,'meta.json'),'w'), indent=1)
print('kept', dst)
